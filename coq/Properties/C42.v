(* C42 Vacuum compacts without changing content.
   Statements only; proofs live in Proofs/VacuumProofs.v; the model is Model/Vacuum.v
   (Memvid::vacuum line by line at byte level; doctor's VacuumCompaction action is the same function
   followed by the Finalize commit).  Crash safety of the in-place rewrite is C02's, not stated here.

   store_inv st : frame ids are distinct; every ACTIVE frame's window is empty or lies inside
     [data start, data_end]; data_end is inside the file.  Windows may overlap or be shared in any way
     (payload-reusing frames share their source's window).
   share_or_disjoint st : non-empty active windows are pairwise identical or disjoint (what open accepts:
     payload-reusing frames share their source's window).   all_disjoint st : pairwise disjoint.
   kept st st' f f' : f' has the id, status, role, metadata tag and index-text flag of f; if f is active,
     f' has f's length, reads (frame_bytes) exactly the bytes f read before, and passes
     validate_frame_bounds in st'; if f is inactive, f' has window (0, 0). *)
From MV Require Import Base.Prelude Model.Vacuum Proofs.VacuumProofs.
Local Open Scope N_scope.

(* (1) The in-place rewrite itself (read phase, then write phase) never changes content, for EVERY table
       meeting the invariant -- overlapping or shared windows included: all reads precede the first
       write, later writes land after the windows already written. *)
Theorem C42_rewrite_preserves_content :
  forall st, store_inv st ->
  exists st1, rewrite st = Ok st1 /\
    Forall2 (kept st st1) (vs_frames st) (vs_frames st1) /\
    vs_frames st1 = relocate (vs_frames st) (vs_start st) /\
    vs_data_end st1 = vs_start st + active_bytes (vs_frames st) /\
    vs_start st1 = vs_start st /\ vs_cpe st1 = vs_data_end st1 /\ vs_footer st1 = vs_footer st /\
    vs_lex st1 = vs_lex st /\ vs_vec st1 = vs_vec st /\ vs_pending st1 = vs_pending st /\
    vs_data_end st1 <= file_len st1 /\ file_len st <= file_len st1.
Proof. exact rewrite_correct. Qed.
Print Assumptions C42_rewrite_preserves_content.

(* (2) The property: vacuum INCLUDING its index rebuild (any index image), for EVERY state meeting the
       invariant, with no side condition: vacuum succeeds, every frame is kept (content, id, metadata,
       status; inactive frames get (0,0) and stay inactive), cached_payload_end = data start + active
       bytes (so later appends and the index image start after the last payload), no log record is left
       pending, and the invariant holds again.  (Before fix f791181 this failed for tables with shared
       windows: Proofs/VacuumProofs.v historical_stale_cpe_refutation, finding F-C42-1, now fixed.) *)
Theorem C42_vacuum_preserves_content :
  forall st ix, store_inv st ->
  exists st', vacuum st ix = Ok st' /\
    Forall2 (kept st st') (vs_frames st) (vs_frames st') /\
    vs_frames st' = relocate (vs_frames st) (vs_start st) /\
    vs_start st' = vs_start st /\
    vs_cpe st' = vs_start st + active_bytes (vs_frames st) /\
    vs_data_end st' <= vs_cpe st' /\
    vs_footer st <= vs_footer st' /\
    vs_pending st' = 0 /\
    store_inv st'.
Proof. exact vacuum_correct. Qed.
Print Assumptions C42_vacuum_preserves_content.

(* (3) Layout: row i of the new table is the old row with window (data start + lengths of the active
       frames before it, old length) if active -- a zero-length active frame (chunked parent) gets the
       running end and length 0 -- and (0, 0) if inactive.  Non-empty active windows are pairwise
       disjoint afterwards and lie in [data start, cached_payload_end']: two active frames that shared one
       window before each get their own copy (the bytes ARE duplicated; harmless now that the index
       image starts after the last copy). *)
Theorem C42_layout_contiguous :
  forall st ix, store_inv st ->
  exists st', vacuum st ix = Ok st' /\
    (forall i f, nth_error (vs_frames st) i = Some f ->
       nth_error (vs_frames st') i =
         Some (if vf_active f
               then set_window f (vs_start st + active_bytes (firstn i (vs_frames st))) (vf_len f)
               else set_window f 0 0)) /\
    pairwise win_disjoint (live (vs_frames st')) /\
    (forall f', In f' (live (vs_frames st')) ->
       vs_start st <= vf_off f' /\ vf_off f' + vf_len f' <= vs_cpe st') /\
    vs_cpe st' = vs_start st + active_bytes (vs_frames st).
Proof. exact vacuum_layout. Qed.
Print Assumptions C42_layout_contiguous.

(* (4) Without window sharing (pairwise disjoint active windows) the payload region does not grow: the
       payloads end at or before any bound all old windows respected. *)
Theorem C42_payload_region_does_not_grow :
  forall st ix E, store_inv st -> all_disjoint st -> vs_start st <= E ->
  (forall f, In f (live (vs_frames st)) -> vf_off f + vf_len f <= E) ->
  exists st', vacuum st ix = Ok st' /\ vs_cpe st' <= E.
Proof. exact vacuum_no_growth. Qed.
Print Assumptions C42_payload_region_does_not_grow.

(* (5) What search, timeline and the index rebuild read of the table (id, status, role, metadata tag,
       index-text flag) is unchanged, so the rebuilt Tantivy document set (active frames with text), the
       time index (active Document frames) and ANY other function of that view are the same. *)
Theorem C42_views_unchanged :
  forall st ix, store_inv st ->
  exists st', vacuum st ix = Ok st' /\
    table_view (vs_frames st') = table_view (vs_frames st) /\
    lex_docs (vs_frames st') = lex_docs (vs_frames st) /\
    time_entries (vs_frames st') = time_entries (vs_frames st) /\
    (forall (A : Type) (rebuild_from : list (N * N * N * N * bool) -> A),
        rebuild_from (table_view (vs_frames st')) = rebuild_from (table_view (vs_frames st))).
Proof. exact vacuum_views. Qed.
Print Assumptions C42_views_unchanged.

(* (6) "Verifies as Passed": no log record is pending after vacuum() (the lex batch record appended by the
       index rebuild is checkpointed since fix 4c0da7f; before it verify failed with one pending record:
       Proofs/VacuumProofs.v historical_verify_failed_before_4c0da7f, finding F-C42-2, now fixed), nor
       after doctor's vacuum.  verify's remaining checks decode the index images (oracles). *)
Theorem C42_verify_after_vacuum :
  forall st ix st', vacuum st ix = Ok st' -> verify_passed st' = true.
Proof. exact vacuum_verify. Qed.
Print Assumptions C42_verify_after_vacuum.

Theorem C42_verify_after_doctor_vacuum :
  forall st ix again st', doctor_vacuum st ix again = Ok st' -> verify_passed st' = true.
Proof. exact doctor_verify. Qed.
Print Assumptions C42_verify_after_doctor_vacuum.

(* (7) Observation, not part of the property: vacuum never gives FILE space back -- the footer offset
       (where the TOC is written) does not decrease (footer_offset is a max of the old value and the end of
       the new index image), so "compacts" is a statement about the payload region ((3), (4)) only. *)
Theorem C42_file_never_shrinks :
  forall st ix st', vacuum st ix = Ok st' -> vs_footer st <= vs_footer st'.
Proof. exact vacuum_footer. Qed.
Print Assumptions C42_file_never_shrinks.

(* ---- non-vacuity ---- *)
(* a deleted frame, an active frame, a zero-length active frame (chunked parent), a superseded frame and
   the active frame that reuses its window (payload-less update) *)
Definition ex_frames : list vframe :=
  [mkVF 0 2 100 5 0 20 true; mkVF 1 0 105 3 0 21 true; mkVF 2 0 108 0 0 22 true;
   mkVF 3 1 108 2 0 23 false; mkVF 4 0 108 2 1 24 false].
Definition ex : vstate := mkVS 100 ex_frames [1; 1; 1; 1; 1; 2; 3; 4; 5; 6; 60; 61] 110 110 110 true true 3.

Example C42_nonvacuous_inv : store_inv ex /\ all_disjoint ex /\ share_or_disjoint ex.
Proof.
  split; [|split].
  - constructor; cbn [ex vs_frames vs_data_end vs_cpe vs_start ex_frames map vf_id].
    + repeat constructor; cbn; intuition discriminate.
    + intros f [<-|[<-|[<-|[<-|[<-|[]]]]]] Ha; try discriminate Ha;
        first [left; reflexivity | right; unfold MAX_FRAME_BYTES; cbn; lia].
    + unfold file_len; cbn; lia.
  - unfold all_disjoint. cbn. split; [|split; [|exact I]]; [intros y [<-|[]]; left; cbn; lia | intros y []].
  - unfold share_or_disjoint. cbn. split; [|split; [|exact I]]; [intros y [<-|[]]; right; left; cbn; lia | intros y []].
Qed.

Example C42_nonvacuous_run :
  exists st', vacuum ex [8; 8] = Ok st' /\
    map (fun f => (vf_id f, vf_status f, vf_off f, vf_len f)) (vs_frames st') =
      [(0, 2, 0, 0); (1, 0, 100, 3); (2, 0, 103, 0); (3, 1, 0, 0); (4, 0, 103, 2)] /\
    map (frame_bytes st') (vs_frames st') = [[]; [2; 3; 4]; []; []; [5; 6]] /\
    vs_data_end st' = 105 /\ vs_cpe st' = 105 /\ vs_pending st' = 0 /\ verify_passed st' = true.
Proof. eexists. split; [vm_compute; reflexivity|]. vm_compute. repeat split; reflexivity. Qed.

(* the former F-C42-1 witness (frames 1 and 2 share superseded frame 0's window): each gets its own copy,
   both read the shared bytes, and the index image starts after the second copy *)
Example C42_shared_window_regression :
  store_inv wit /\ share_or_disjoint wit /\
  exists st', vacuum wit wit_ix = Ok st' /\
    map (fun f => (vf_id f, vf_off f, vf_len f)) (vs_frames st') = [(0, 0, 0); (1, 100, 4); (2, 104, 4)] /\
    map (frame_bytes st') (vs_frames st') = [[]; [1; 2; 3; 4]; [1; 2; 3; 4]] /\
    vs_cpe st' = 108 /\ vs_data_end st' = 108.
Proof. split; [exact wit_inv|]. split; [exact wit_share|]. exact wit_fixed. Qed.
