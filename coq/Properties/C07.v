(* C07 Content fidelity: reads return exactly what was stored.
   Statements only; proofs live in Proofs/ContentProofs.v (model: Model/Content.v).
   zstd, BLAKE3, UTF-8 validity and render_binary_summary are arbitrary functions; the only
   assumption is the zstd round trip  zdec (zenc level x) = Some x. *)
From MV Require Import Base.Prelude Model.Content Proofs.ContentProofs.
From MV Require Import Model.Chunks.
From MV Require Gen.Consts.
Local Open Scope N_scope.

(* (1) prepare_canonical_payload_with_level followed by decode_canonical_bytes is the identity, and
       the canonical length recorded is the payload's length -- every level, every payload. *)
Theorem C07_prepare_decode_roundtrip :
  forall zenc zdec is_utf8, (forall level x, zdec (zenc level x) = Some x) ->
  forall level p,
    let '(stored, e, cl) := prepare zenc is_utf8 level p in
    decode_canonical zdec e stored = Ok p /\ cl = Some (blen p).
Proof. exact prepare_roundtrip. Qed.
Print Assumptions C07_prepare_decode_roundtrip.

(* (2) whole payloads.  For EVERY store whose frames lie between the log region and data_end inside
       the file, EVERY batch of log records (inserts of fresh or reused payloads, tombstones, lex
       batches, in any order) that apply_records accepts and that contains the record put_internal
       builds for a payload P stored whole (any compression level, binary or text, any search
       text / mime), the frame created for it -- at index (frames before + inserts before it) --
       satisfies at the end of the commit: frame_canonical_payload = P; the blob reader (file
       window for Plain, memory for Zstd) reads P to the end and reports length |P|; the checksum is
       BLAKE3 of the stored window; validate_frame_bounds accepts it; the canonical-length check
       passes (canonical_length = |P|); the stored window is exactly what prepare produced.
       Hypotheses: each fresh payload of the batch is at most MAX_FRAME_BYTES (validate_frame_bounds
       rejects longer ones), and the final data_end fits in u64. *)
Theorem C07_whole_payload_fidelity :
  forall zenc zdec H is_utf8 summary, (forall level x, zdec (zenc level x) = Some x) ->
  forall st pre post seq level p m sup st',
    store_ok st ->
    Forall rec_ok (pre ++ RInsert seq (whole_entry zenc is_utf8 level p m sup) :: post) ->
    apply_records zdec H is_utf8 summary st (pre ++ RInsert seq (whole_entry zenc is_utf8 level p m sup) :: post) = Ok st' ->
    s_data_end st' <= U64_MAX ->
    exists f, nth_error (s_frames st') (length (s_frames st) + count_ins pre) = Some f /\
      f_id f = N.of_nat (length (s_frames st) + count_ins pre) /\
      frame_canonical_bytes zdec st' f = Ok p /\
      (exists b, blob_reader zdec st' f = Ok b /\ blob_read_to_end st' b = p /\ blob_len b = blen p) /\
      f_sum f = H (window (s_file st') (f_off f) (f_len f)) /\
      validate_frame_bounds st' f = Ok tt /\
      f_clen f = Some (blen p) /\
      fst (fst (prepare zenc is_utf8 level p)) = window (s_file st') (f_off f) (f_len f).
Proof. exact whole_put_fidelity. Qed.
Print Assumptions C07_whole_payload_fidelity.

(* (3) the read during apply (index text of an entry without search text): the frame just written
       is accepted by validate_frame_bounds at the time it is read, and the read returns the bytes
       just written.  (Before /repo 270cbaf data_end was advanced after the loop and this read was
       rejected: lemma read_during_apply_rejected_before_fix.) *)
Theorem C07_read_during_apply_accepted :
  forall (zenc : Z -> bytes -> bytes) (zdec : bytes -> option bytes) (zrt : forall level x, zdec (zenc level x) = Some x) st0 l e fr,
    linv st0 l -> entry_ok e -> l_cursor l + blen (e_payload e) <= U64_MAX ->
    f_off fr = l_cursor l -> f_len fr = blen (e_payload e) ->
    let file' := write_at (l_file l) (N.to_nat (l_cursor l)) (e_payload e) in
    let dend' := N.max (l_dend l) (l_cursor l + blen (e_payload e)) in
    validate_frame_bounds (view st0 file' dend' (l_frames l)) fr = Ok tt /\
    read_payload (view st0 file' dend' (l_frames l)) fr = Ok (e_payload e).
Proof. intros zenc zdec zrt. exact (read_during_apply_ok zenc zdec (fun x => x) (fun _ => true) (fun _ => []) zrt). Qed.
Print Assumptions C07_read_during_apply_accepted.

(* (4) payload-reusing updates: the new frame shares offset, length and checksum with its
       predecessor (which keeps them), and canonical payload and blob reader of the two agree. *)
Theorem C07_reuse_update_shares :
  forall (zenc : Z -> bytes -> bytes) zdec H is_utf8 summary, (forall level x, zdec (zenc level x) = Some x) ->
  forall st pre post seq src m st',
    store_ok st ->
    forall s cl, nth_error (s_frames st) (N.to_nat src) = Some s -> is_chunked_doc s = false ->
    f_clen s = Some cl ->
    Forall rec_ok (pre ++ RInsert seq (reuse_entry s m) :: post) -> f_id s = src ->
    apply_records zdec H is_utf8 summary st (pre ++ RInsert seq (reuse_entry s m) :: post) = Ok st' ->
    exists f s', nth_error (s_frames st') (length (s_frames st) + count_ins pre) = Some f /\
      nth_error (s_frames st') (N.to_nat src) = Some s' /\
      f_off f = f_off s' /\ f_len f = f_len s' /\ f_sum f = f_sum s' /\
      f_off s' = f_off s /\ f_len s' = f_len s /\ f_sum s' = f_sum s /\
      frame_canonical_bytes zdec st' f = frame_canonical_bytes zdec st' s' /\
      blob_reader zdec st' f = blob_reader zdec st' s'.
Proof. intros zenc zdec H is_utf8 summary zrt. exact (reuse_update_shares zenc zdec H is_utf8 summary zrt). Qed.
Print Assumptions C07_reuse_update_shares.

(* (5) chunked text, read side (PARTIAL: the write side -- that after apply_records the active
       children of the parent are exactly the chunk frames of its own put, in chunk_index order --
       is established by the correspondence runs, not by a theorem).  In any store where the active
       chunk frames of document f are cs in chunk_index order, their count equals the manifest's,
       and each stored window decodes to its chunk with the recorded canonical length:
       document_chunk_payloads pairs them in order, the document's canonical payload is the
       in-order concatenation of the chunks, and each chunk frame reads its chunk. *)
Theorem C07_chunked_document_reads_concat_partial :
  forall (zenc : Z -> bytes -> bytes) (zdec : bytes -> option bytes), (forall level x, zdec (zenc level x) = Some x) ->
  forall st f cs chunks n,
    wal_end st <= U64_MAX -> s_data_end st <= U64_MAX ->
    is_chunked_doc f = true -> f_manifest f = Some n ->
    filter (is_child_of (f_id f)) (s_frames st) = cs -> sorted child_key cs ->
    cs <> [] -> blen cs = n ->
    Forall2 (fun c ch => win_ok (wal_end st) (s_data_end st) (blen (s_file st)) c /\
                         decode_canonical zdec (f_enc c) (window (s_file st) (f_off c) (f_len c)) = Ok ch /\
                         f_clen c = Some (blen ch)) cs chunks ->
    document_chunk_payloads zdec st f = Ok (combine cs chunks) /\
    frame_canonical_bytes zdec st f = Ok (concat chunks) /\
    Forall2 (fun c ch => frame_canonical_bytes zdec st c = Ok ch \/ is_chunked_doc c = true) cs chunks.
Proof. intros zenc zdec zrt. exact (chunked_document_reads_concat zenc zdec (fun x => x) (fun _ => true) (fun _ => []) zrt). Qed.
Print Assumptions C07_chunked_document_reads_concat_partial.

(* (6) unstructured text (from C34's partition theorem, any character type, any per-character
       encoding such as UTF-8): the planned chunk texts are at least two, none empty, and their
       encodings concatenate to the encoding of the normalized text -- nothing lost or duplicated. *)
Theorem C07_unstructured_chunks_concat_to_normalized_text :
  forall (A : Type) (is_nl is_term is_ws : A -> bool) (enc_char : A -> bytes) (normalized : list A) structural,
    (CHUNK_MIN_CHARS <= length normalized)%nat ->
    exists rs chunks,
      plan_text_chunks is_nl is_term is_ws (Some normalized) false structural
        = Ok (Some (DEFAULT_CHUNK_CHARS, rs, chunks)) /\
      (2 <= length chunks)%nat /\
      (forall c, In c chunks -> c <> []) /\
      concat (map (flat_map enc_char) chunks) = flat_map enc_char normalized.
Proof. exact unstructured_chunks_concat_bytes. Qed.
Print Assumptions C07_unstructured_chunks_concat_to_normalized_text.

(* ---- toy oracles for witnesses: "zstd" prefixes a byte, the hash is the length ---- *)
Definition t_zenc (_ : Z) (x : bytes) : bytes := 40 :: x.
Definition t_zdec (s : bytes) : option bytes := match s with 40 :: x => Some x | _ => None end.
Definition t_H (x : bytes) : bytes := [blen x].
Definition t_utf8 (x : bytes) : bool := forallb (fun b => b <? 128) x.
Definition t_sum (n : N) : bytes := [60; n; 62].
Lemma t_zstd_rt : forall level x, t_zdec (t_zenc level x) = Some x.
Proof. reflexivity. Qed.
Definition st0 : store := mkStore [9; 9; 9; 9; 0; 0; 0; 0] 4 4 8 [] true.
Definition mt : meta := mkMeta (Some [116]) (Some true).
Lemma st0_ok : store_ok st0.
Proof. constructor; [vm_compute; discriminate|constructor]. Qed.

(* (7) the property as stated FAILS for a payload stored whole that also got a chunk plan from its
       extracted text (known finding F-C07-2): payload [255; 65] (not UTF-8) with extracted-text
       chunks "A" and "B": the commit succeeds, the blob reader returns the payload, but the
       canonical payload is "AB". *)
Theorem C07_binary_parent_chunked_refuted :
  exists zenc zdec H is_utf8 summary, (forall level x, zdec (zenc level x) = Some x) /\
  exists st seq level p plan m sup st' f,
    known_class plan = true /\ store_ok st /\
    Forall rec_ok (put_stored_records zenc is_utf8 seq level p plan m sup) /\
    apply_records zdec H is_utf8 summary st (put_stored_records zenc is_utf8 seq level p plan m sup) = Ok st' /\
    nth_error (s_frames st') (length (s_frames st)) = Some f /\
    (exists b, blob_reader zdec st' f = Ok b /\ blob_read_to_end st' b = p) /\
    frame_canonical_bytes zdec st' f <> Ok p.
Proof.
  exists t_zenc, t_zdec, t_H, t_utf8, t_sum. split; [exact t_zstd_rt|].
  exists st0, 2, 3%Z, [255; 65], (Some [([65], mt); ([66], mt)]), mt, None.
  eexists. eexists. split; [reflexivity|]. split; [exact st0_ok|].
  split; [repeat constructor; vm_compute; discriminate|].
  split; [vm_compute; reflexivity|]. split; [vm_compute; reflexivity|].
  split; [eexists; split; vm_compute; reflexivity|]. vm_compute. discriminate.
Qed.
Print Assumptions C07_binary_parent_chunked_refuted.

(* (8) outside the known class (no chunk plan from extracted text) the put that stores P in the
       parent frame has full fidelity -- for every batch around it. *)
Theorem C07_whole_fidelity_outside_known :
  forall zenc zdec H is_utf8 summary, (forall level x, zdec (zenc level x) = Some x) ->
  forall st pre post seq level p plan m sup st',
    known_class plan = false ->
    store_ok st ->
    Forall rec_ok (pre ++ put_stored_records zenc is_utf8 seq level p plan m sup ++ post) ->
    apply_records zdec H is_utf8 summary st (pre ++ put_stored_records zenc is_utf8 seq level p plan m sup ++ post) = Ok st' ->
    s_data_end st' <= U64_MAX ->
    exists f, nth_error (s_frames st') (length (s_frames st) + count_ins pre) = Some f /\
      frame_canonical_bytes zdec st' f = Ok p /\
      (exists b, blob_reader zdec st' f = Ok b /\ blob_read_to_end st' b = p /\ blob_len b = blen p) /\
      f_sum f = H (window (s_file st') (f_off f) (f_len f)) /\
      validate_frame_bounds st' f = Ok tt /\ f_clen f = Some (blen p).
Proof.
  intros zenc zdec H is_utf8 summary zrt st pre post seq level p plan m sup st' Hk Hok Hrs Hap Hu.
  destruct plan as [cs|]; [discriminate|]. cbn [put_stored_records put_whole_records app] in *.
  destruct (whole_put_fidelity zenc zdec H is_utf8 summary zrt _ _ _ _ _ _ _ _ _ Hok Hrs Hap Hu)
    as (f & A & _ & B & C & D & E & F & _).
  exists f. repeat split; assumption.
Qed.
Print Assumptions C07_whole_fidelity_outside_known.

(* ---- non-vacuity: the hypotheses of (2), (4), (5), (8) are met by concrete batches ---- *)
(* a text (Zstd), then a binary payload (Plain), then a payload-reusing update of the first, a
   delete and a level-0 text: the batch is accepted; frame 0 reads "hi", frame 1 reads [255; 0],
   frame 2 shares offset/length/checksum with frame 0 *)
Definition batch1 : list record :=
  put_whole_records t_zenc t_utf8 2 3%Z [104; 105] mt None ++
  put_whole_records t_zenc t_utf8 3 3%Z [255; 0] (mkMeta None (Some false)) None.
Definition st1 : store :=
  match apply_records t_zdec t_H t_utf8 t_sum st0 batch1 with Ok s => s | _ => st0 end.
Definition batch2 (s : frame) : list record :=
  [RInsert 4 (reuse_entry s mt); RTombstone (Some 1); RLex] ++ put_whole_records t_zenc t_utf8 5 0%Z [120] (mkMeta None None) None.
Example C07_nonvacuous_whole :
  Forall rec_ok batch1 /\ store_ok st0 /\
  (exists st', apply_records t_zdec t_H t_utf8 t_sum st0 batch1 = Ok st' /\ s_data_end st' = 13 /\
     map (fun f => (f_off f, f_len f, f_clen f)) (s_frames st') = [(8, 3, Some 2); (11, 2, Some 2)] /\
     map (frame_canonical_bytes t_zdec st') (s_frames st') = [Ok [104; 105]; Ok [255; 0]]).
Proof.
  split; [repeat constructor; vm_compute; discriminate|]. split; [exact st0_ok|].
  eexists. split; [vm_compute; reflexivity|]. vm_compute. repeat split.
Qed.

Example C07_nonvacuous_reuse :
  exists s, nth_error (s_frames st1) 0 = Some s /\
      is_chunked_doc s = false /\ f_clen s = Some 2 /\ f_id s = 0 /\ Forall rec_ok (batch2 s) /\
      exists st', apply_records t_zdec t_H t_utf8 t_sum st1 (batch2 s) = Ok st' /\
        map (fun f => (f_off f, f_len f, f_status f)) (s_frames st') = [(8, 3, 1); (11, 2, 2); (8, 3, 0); (13, 1, 0)] /\
        map (frame_canonical_bytes t_zdec st') (s_frames st') = [Ok [104; 105]; Ok [255; 0]; Ok [104; 105]; Ok [120]].
Proof.
  eexists. split; [vm_compute; reflexivity|].
  split; [vm_compute; reflexivity|]. split; [vm_compute; reflexivity|]. split; [vm_compute; reflexivity|].
  split; [repeat constructor; vm_compute; discriminate|].
  eexists. split; [vm_compute; reflexivity|]. split; vm_compute; reflexivity.
Qed.

(* a chunked put (parent stores nothing, two chunks): the parent reads "ab" ++ "cd" *)
Definition batch3 : list record :=
  put_chunked_records t_zenc t_utf8 2 [([97; 98], mt); ([99; 100], mt)] mt None.
Example C07_nonvacuous_chunked :
  exists st', apply_records t_zdec t_H t_utf8 t_sum st0 batch3 = Ok st' /\
    match s_frames st' with
    | [p; c0; c1] =>
        is_chunked_doc p = true /\ f_manifest p = Some 2 /\ f_len p = 0 /\
        filter (is_child_of (f_id p)) (s_frames st') = [c0; c1] /\
        frame_canonical_bytes t_zdec st' p = Ok [97; 98; 99; 100] /\
        frame_canonical_bytes t_zdec st' c0 = Ok [97; 98] /\
        (* observation: the blob reader of a chunked parent is the empty file window *)
        (exists b, blob_reader t_zdec st' p = Ok b /\ blob_read_to_end st' b = [])
    | _ => False
    end.
Proof. eexists. split; [vm_compute; reflexivity|]. vm_compute. repeat split. eexists. split; reflexivity. Qed.

(* (9) the model's frame-size limit is the one in src/lib.rs now (regenerated each run). *)
Theorem C07_consts_tied : MAX_FRAME_BYTES = MV.Gen.Consts.MAX_FRAME_BYTES.
Proof. reflexivity. Qed.
Print Assumptions C07_consts_tied.
