(* C04 Recovery is crash-safe and idempotent (partial).
   At frame-table level (Model/Store.v) replay at open = applying the pending log records
   (do_commit); at protocol level replay rewrites the file in place (class `in place` of
   Corr/C02.v), so crash-safety DURING replay is not derivable from the protocol: it is explored
   on the real code by nested kill enumeration (harness/src/c04.rs). *)
From MV Require Import Base.Prelude Model.Store Model.StoreSpec Proofs.StoreProofs.
Local Open Scope N_scope.

(* Replay exposes exactly what was acknowledged: for every state reachable by any history, the
   table after replay equals the frames the memory exposed before (committed + pending). *)
Theorem C04_replay_shows_every_acknowledged_op :
  forall s R extra, J s R ->
    committed (do_commit s extra) = R /\ view (do_commit s extra) = R /\ pending (do_commit s extra) = [].
Proof.
  intros s R extra HJ. pose proof (J_view _ _ HJ) as HV. pose proof (J_view _ _ (J_commit s R extra HJ)) as HV2.
  unfold do_commit in *. cbn [committed pending] in *. rewrite HV. auto.
Qed.
Print Assumptions C04_replay_shows_every_acknowledged_op.

(* Idempotence: replaying / opening again (any number of times) changes no frame. *)
Theorem C04_replay_idempotent :
  forall s R e1 e2, J s R ->
    view (do_commit (do_commit s e1) e2) = view (do_commit s e1) /\
    committed (do_commit (do_commit s e1) e2) = committed (do_commit s e1).
Proof.
  intros s R e1 e2 HJ. pose proof (J_commit s R e1 HJ) as H1. pose proof (J_commit _ R e2 H1) as H2.
  rewrite (J_view _ _ H2), (J_view _ _ H1). split; [reflexivity|].
  destruct (C04_replay_shows_every_acknowledged_op _ R e2 H1) as (A & _). destruct (C04_replay_shows_every_acknowledged_op _ R e1 HJ) as (B & _).
  rewrite A, B. reflexivity.
Qed.
Print Assumptions C04_replay_idempotent.

(* and a crash+replay step of the model is a step of the reference model (nothing lost, nothing added) *)
Theorem C04_crash_replay_refines :
  forall s R extra, J s R -> let '(s1, o) := sstep s (OCrash extra) in J s1 R.
Proof. intros s R extra HJ. pose proof (sstep_refines s R (OCrash extra) HJ) as H. destruct (sstep s (OCrash extra)) as [s1 o]. specialize (H eq_refl). unfold ref_step in H. destruct (negb (acked o)); exact H. Qed.
Print Assumptions C04_crash_replay_refines.

Example C04_nonvacuous :
  let s := fst (srun store0 [OPut (Some 1) 1000 0 0 None; OCommit 1; OPut None 2000 2 0 None; OUpdate 0 None None None]) in
  pending s <> [] /\ map f_id (committed (do_commit s 0)) = [0; 1; 2; 3; 4] /\
  map f_status (committed (do_commit (do_commit s 0) 0)) = [1; 0; 0; 0; 0].
Proof. vm_compute. repeat split. discriminate. Qed.
