(* C30 File-format codecs round-trip and reject malformed input.
   Statements only; proofs live in Proofs/{Header,TimeIndex,Bincode,Toc}Proofs.v; the footer
   codec is Properties/C31.v (C31_footer_roundtrip) and is restated here from the same lemmas. *)
From MV Require Import Base.Prelude Model.Header Model.Footer Model.TimeIndex Model.Bincode Model.Toc.
From MV Require Import Proofs.HeaderProofs Proofs.FooterProofs Proofs.TimeIndexProofs Proofs.BincodeProofs Proofs.TocProofs.
From Coq Require Import Permutation.
Local Open Scope N_scope.

(* ======================= header (src/io/header.rs) ======================= *)

(* (H1) for every header value of the Rust type (header_wf: array lengths, integer widths) that
   passes encode's four checks (header_valid), encode succeeds with a 4096-byte image and
   decode of that image is the same header. *)
Theorem C30_header_roundtrip :
  forall h, header_wf h = true -> header_valid h = true ->
    exists b, header_encode h = Ok b /\ length b = HEADER_SIZE /\ header_decode b = Ok h.
Proof. exact header_decode_encode. Qed.
Print Assumptions C30_header_roundtrip.

(* (H2) encode rejects exactly the other headers (and never panics). *)
Theorem C30_header_encode_rejects_iff :
  forall h, (exists k, header_encode h = Err k) <-> header_valid h = false.
Proof. exact header_encode_err_iff. Qed.
Print Assumptions C30_header_encode_rejects_iff.

(* (H3) decode accepts a buffer exactly when it has 4096 bytes and magic, version, both spec
   bytes, wal_offset >= 4096 and wal_size <> 0 check out, and then returns the fields read at
   their offsets; otherwise it answers Err (never a value, never a panic). *)
Theorem C30_header_decode_accepts_iff :
  forall b h, header_decode b = Ok h <->
    length b = HEADER_SIZE /\ header_checks b = true /\ h = header_fields b.
Proof. exact header_decode_ok_iff. Qed.
Print Assumptions C30_header_decode_accepts_iff.

Theorem C30_header_decode_rejects_iff :
  forall b, (exists k, header_decode b = Err k) <-> (length b <> HEADER_SIZE \/ header_checks b = false).
Proof. exact header_decode_err_iff. Qed.
Print Assumptions C30_header_decode_rejects_iff.

Theorem C30_header_decode_no_panic : forall b s, header_decode b <> Panic s.
Proof. exact header_decode_no_panic. Qed.
Print Assumptions C30_header_decode_no_panic.

(* (H4) decode does not return "a different value": an accepted image re-encodes to itself on
   bytes 0..80, so two accepted images of one header agree on every byte decode reads. *)
Theorem C30_header_decode_canonical :
  forall b h, bytes_ok b = true -> header_decode b = Ok h ->
    header_encode h = Ok (firstn TOC_CHECKSUM_END b ++ zeros (HEADER_SIZE - TOC_CHECKSUM_END)).
Proof. exact header_decode_canonical. Qed.
Print Assumptions C30_header_decode_canonical.

(* (H5) what bounds "rejects inconsistent images" for the header: it has no checksum of its own and
   bytes 80..4096 are never looked at. *)
Theorem C30_header_decode_ignores_padding :
  forall b b', length b = HEADER_SIZE -> length b' = HEADER_SIZE ->
    firstn TOC_CHECKSUM_END b = firstn TOC_CHECKSUM_END b' -> header_decode b = header_decode b'.
Proof. exact header_decode_ignores_padding. Qed.
Print Assumptions C30_header_decode_ignores_padding.

(* (H6) write then read on a file of any length gives the header back, touches only the first
   4096 bytes; read's legacy-lock scrub never changes the result. *)
Theorem C30_header_read_write :
  forall file h, header_wf h = true -> header_valid h = true ->
    exists file', header_write file h = Ok file' /\ header_read file' = (Ok h, file') /\
                  skipn HEADER_SIZE file' = skipn HEADER_SIZE file.
Proof. exact header_read_write. Qed.
Print Assumptions C30_header_read_write.

Theorem C30_header_read_is_decode :
  forall file, (HEADER_SIZE <= length file)%nat -> fst (header_read file) = header_decode (firstn HEADER_SIZE file).
Proof. exact header_read_result. Qed.
Print Assumptions C30_header_read_is_decode.

Definition sample_header : header :=
  mkHeader MAGIC 513 1048576 4096 4194304 0 42 (repeat 171 32).
Example C30_header_nonvacuous :
  header_wf sample_header = true /\ header_valid sample_header = true /\
  (exists b, header_encode sample_header = Ok b /\ header_decode b = Ok sample_header) /\
  header_valid (mkHeader MAGIC 513 0 4095 1 0 0 (repeat 0 32)) = false.
Proof. repeat split; try (vm_compute; reflexivity). eexists. split; vm_compute; reflexivity. Qed.

Theorem C30_header_consts_tied :
  MAGIC = MV.Gen.Consts.HEADER_MAGIC /\ N.of_nat HEADER_SIZE = MV.Gen.Consts.HEADER_SIZE /\
  SPEC_MAJOR = MV.Gen.Consts.SPEC_MAJOR /\ SPEC_MINOR = MV.Gen.Consts.SPEC_MINOR /\
  WAL_OFFSET = MV.Gen.Consts.WAL_OFFSET /\ EXPECTED_VERSION = MV.Gen.Consts.HDR_EXPECTED_VERSION /\
  N.of_nat VERSION_OFFSET = MV.Gen.Consts.HDR_VERSION_OFFSET /\
  N.of_nat SPEC_BYTES_OFFSET = MV.Gen.Consts.HDR_SPEC_BYTES_OFFSET /\
  N.of_nat FOOTER_OFFSET_POS = MV.Gen.Consts.HDR_FOOTER_OFFSET_POS /\
  N.of_nat WAL_OFFSET_POS = MV.Gen.Consts.HDR_WAL_OFFSET_POS /\
  N.of_nat WAL_SIZE_POS = MV.Gen.Consts.HDR_WAL_SIZE_POS /\
  N.of_nat WAL_CHECKPOINT_POS = MV.Gen.Consts.HDR_WAL_CHECKPOINT_POS /\
  N.of_nat WAL_SEQUENCE_POS = MV.Gen.Consts.HDR_WAL_SEQUENCE_POS /\
  N.of_nat TOC_CHECKSUM_POS = MV.Gen.Consts.HDR_TOC_CHECKSUM_POS /\
  N.of_nat TOC_CHECKSUM_END = MV.Gen.Consts.HDR_TOC_CHECKSUM_END.
Proof. exact header_consts_tied. Qed.
Print Assumptions C30_header_consts_tied.

(* ======================= commit footer (src/footer.rs; model and proofs of C31) ======================= *)
Theorem C30_footer_roundtrip :
  forall f, (toc_len f < 2 ^ 64)%N -> (generation f < 2 ^ 64)%N -> length (toc_hash f) = 32%nat ->
            footer_decode (footer_encode f) = Some f.
Proof. exact footer_decode_encode. Qed.
Print Assumptions C30_footer_roundtrip.

Theorem C30_footer_decode_rejects :
  forall b f, footer_decode b = Some f -> length b = FOOTER_SIZE /\ firstn 8 b = FOOTER_MAGIC.
Proof. exact footer_decode_magic. Qed.
Print Assumptions C30_footer_decode_rejects.

(* ======================= time index (src/io/time_index.rs) ======================= *)

(* (T1) sort_by_key on (timestamp, frame_id): the model's sort is a sorted permutation and the only
   one, so it is what any correct sort returns on these keys. *)
Theorem C30_time_index_sort_spec :
  forall l, sortedb (sort_entries l) = true /\ Permutation l (sort_entries l) /\
            forall s, Permutation l s -> sortedb s = true -> s = sort_entries l.
Proof. exact sort_entries_spec. Qed.
Print Assumptions C30_time_index_sort_spec.

(* (T2) read(append es) = sorted es: for every store content, every write position, every entry list
   with i64 / u64 fields and fewer than 2^59 entries, and any hash function. *)
Theorem C30_time_index_roundtrip :
  forall (H : bytes -> bytes) file pos es,
    forallb entry_wf es = true -> N.of_nat (length es) * 16 < 2 ^ 63 ->
    let '((off, len, cks), file', sorted) := append_track H file pos es in
    sorted = sort_entries es /\ read_track file' (N.to_nat off) len = Ok (sort_entries es) /\
    cks = calculate_checksum H es.
Proof. exact append_read_roundtrip. Qed.
Print Assumptions C30_time_index_roundtrip.

(* (T3) an Ok answer means: magic present, declared count = number of entries returned, length =
   12 + 16*count, entries in (timestamp, frame_id) order, and (for a store of bytes) the bytes in
   [offset, offset+length) are exactly the image of the returned list. *)
Theorem C30_time_index_accepts_only_consistent :
  forall file pos len es, read_track file pos len = Ok es ->
    firstn 4 (skipn pos file) = TIME_INDEX_MAGIC /\
    le_decode (slice (skipn pos file) 4 8) = N.of_nat (length es) /\
    len = 12 + 16 * N.of_nat (length es) /\
    sortedb es = true /\
    (bytes_ok file = true ->
     forallb entry_wf es = true /\ firstn (N.to_nat len) (skipn pos file) = track_image es).
Proof. exact read_track_ok_inv. Qed.
Print Assumptions C30_time_index_accepts_only_consistent.

(* (T4) the image of an out-of-order list is answered "entries not sorted"; the named rejections. *)
Theorem C30_time_index_rejects_unsorted :
  forall file pos es tail,
    forallb entry_wf es = true -> N.of_nat (length es) * 16 < 2 ^ 63 -> sortedb es = false ->
    skipn pos file = track_image es ++ tail ->
    read_track file pos (N.of_nat (length (track_image es))) = Err E_TI_UNSORTED.
Proof. exact read_track_rejects_unsorted. Qed.
Print Assumptions C30_time_index_rejects_unsorted.

Theorem C30_time_index_rejects_magic :
  forall file pos len, firstn 4 (skipn pos file) <> TIME_INDEX_MAGIC -> exists k, read_track file pos len = Err k.
Proof. exact read_track_rejects_magic. Qed.
Print Assumptions C30_time_index_rejects_magic.

Theorem C30_time_index_rejects_short_length :
  forall file pos len, len < TI_HEADER_LEN -> exists k, read_track file pos len = Err k.
Proof. exact read_track_rejects_short_length. Qed.
Print Assumptions C30_time_index_rejects_short_length.

Theorem C30_time_index_rejects_count_mismatch :
  forall file pos len,
    len - TI_HEADER_LEN <> le_decode (slice (skipn pos file) 4 8) * TI_ENTRY_LEN ->
    exists k, read_track file pos len = Err k.
Proof. exact read_track_rejects_count_mismatch. Qed.
Print Assumptions C30_time_index_rejects_count_mismatch.

(* (T5) read_track answers Ok or Err on EVERY input: it never panics.  (Before the repair b6c8721 the
   class ti_capacity_class -- a count needing more than isize::MAX bytes with the matching length --
   panicked in Vec::with_capacity; the reader now reserves fallibly and answers "entry count too
   large" on exactly that class.) *)
Theorem C30_time_index_decode_no_panic :
  forall file pos len s, read_track file pos len <> Panic s.
Proof. exact read_track_no_panic. Qed.
Print Assumptions C30_time_index_decode_no_panic.

Theorem C30_time_index_too_large_iff :
  forall file pos len, read_track file pos len = Err E_TI_TOO_LARGE <-> ti_capacity_class file pos len = true.
Proof. exact read_track_too_large_iff. Qed.
Print Assumptions C30_time_index_too_large_iff.

Definition capacity_witness : bytes := TIME_INDEX_MAGIC ++ le_encode 8 (2 ^ 59).

Definition mkE (t : Z) (i : N) : entry := (t, i).
Definition sample_entries : list entry := [mkE 30 2; mkE 10 0; mkE (-5) 7; mkE 10 0; mkE 20 1].
Example C30_time_index_nonvacuous :
  forallb entry_wf sample_entries = true /\ sortedb sample_entries = false /\
  (let '((off, len, _), file', _) := append_track (fun _ => []) [1; 2; 3] 2 sample_entries in
   off = 2 /\ len = 92 /\ read_track file' 2 len = Ok [mkE (-5) 7; mkE 10 0; mkE 10 0; mkE 20 1; mkE 30 2]) /\
  ti_capacity_class capacity_witness 0 (12 + 16 * 2 ^ 59) = true /\
  read_track capacity_witness 0 (12 + 16 * 2 ^ 59) = Err E_TI_TOO_LARGE /\
  ti_capacity_class (track_image sample_entries) 0 92 = false.
Proof. vm_compute. repeat split; reflexivity. Qed.

(* ======================= TOC (src/toc.rs + the serde schema of types::Toc) ======================= *)

(* (B1) ONE theorem for every schema and value of the bincode model: a well-typed value, followed by
   anything, decodes back to itself and leaves exactly what followed.  schema_ok = every Vec element
   type occupies at least one byte (true of every type in Toc). *)
Theorem C30_bincode_roundtrip :
  forall s, schema_ok s = true -> forall v rest, wt s v = true -> dec s (enc s v ++ rest) = Ok (v, rest).
Proof. exact codec_roundtrip. Qed.
Print Assumptions C30_bincode_roundtrip.

(* (B2) Toc::decode (Toc::encode t) = Ok t for every well-typed t of the Toc schema (all fields; the
   memory binding only as None), answered by the current-layout branch, never by a legacy one. *)
Theorem C30_toc_roundtrip_partial :
  forall t, wt toc_schema t = true -> toc_decode (toc_encode t) = Ok t.
Proof. exact toc_decode_encode. Qed.
Print Assumptions C30_toc_roundtrip_partial.

(* (B3) trailing bytes after a valid image are an error, whatever they are. *)
Theorem C30_toc_rejects_trailing :
  forall t rest, wt toc_schema t = true -> rest <> [] -> toc_decode (toc_encode t ++ rest) = Err E_TRAILING.
Proof. exact toc_decode_trailing. Qed.
Print Assumptions C30_toc_rejects_trailing.

Theorem C30_toc_rejects_leftover :
  forall b v r, dec toc_schema b = Ok (v, r) -> r <> [] -> toc_decode b = Err E_TRAILING.
Proof. exact toc_decode_rejects_leftover. Qed.
Print Assumptions C30_toc_rejects_leftover.

(* (B4) the three-layout fallback as written: an Ok answer comes from the first layout that decodes
   without error, with nothing left over; a legacy layout is consulted only after a decode error. *)
Theorem C30_toc_decode_branches :
  forall b t, toc_decode b = Ok t ->
    dec toc_schema b = Ok (t, []) \/
    ((exists k, dec toc_schema b = Err k) /\ exists v, dec toc_v2_schema b = Ok (v, []) /\ t = from_v2 v) \/
    ((exists k, dec toc_schema b = Err k) /\ (exists k, dec toc_v2_schema b = Err k) /\
     exists v, dec toc_v1_schema b = Ok (v, []) /\ t = from_v1 v).
Proof. exact toc_decode_ok_inv. Qed.
Print Assumptions C30_toc_decode_branches.

(* (B5) checksum: a stamped TOC verifies; a TOC that verifies stores the digest of one of the three
   images of itself with the checksum field zeroed (so any other stored value is rejected). *)
Theorem C30_toc_checksum_stamp :
  forall (H : bytes -> bytes) l, length l = 16%nat -> verify_checksum H (stamp H (VList l)) = true.
Proof. exact verify_checksum_stamp. Qed.
Print Assumptions C30_toc_checksum_stamp.

Theorem C30_toc_checksum_sound :
  forall (H : bytes -> bytes) t, verify_checksum H t = true ->
    let z := set_checksum zero32 t in
    exists img, In img [enc toc_schema z; enc toc_v2_schema (to_v2 z); enc toc_v1_schema (to_v1 z)] /\
                field 15 t = VStr (H img).
Proof. exact verify_checksum_sound. Qed.
Print Assumptions C30_toc_checksum_sound.

Theorem C30_toc_consts_tied :
  MAX_TOC_SEGMENTS = MV.Gen.Consts.TOC_MAX_SEGMENTS /\ MAX_TOC_FRAMES = MV.Gen.Consts.TOC_MAX_FRAMES /\
  MAX_SEGMENT_CATALOG_ENTRIES = MV.Gen.Consts.TOC_MAX_CATALOG_ENTRIES /\ MAX_TAGS = MV.Gen.Consts.FRAME_MAX_TAGS /\
  MAX_LABELS = MV.Gen.Consts.FRAME_MAX_LABELS /\ MAX_CONTENT_DATES = MV.Gen.Consts.FRAME_MAX_CONTENT_DATES /\
  MAX_EXTRA_METADATA_ENTRIES = MV.Gen.Consts.FRAME_MAX_EXTRA_METADATA.
Proof. exact toc_consts_tied. Qed.
Print Assumptions C30_toc_consts_tied.

(* Non-vacuity: a TOC with one segment, one frame carrying metadata (audio tags map, f32/f64 bits,
   non-ASCII strings), every Option of the top level filled except the binding. *)
Definition d32 (x : N) : value := VStr (repeat x 32).
Definition sample_frame : value :=
  VList [VN 0; VZ (-5); VSome (VZ 7); VSome (VN 2); VSome (VStr [116; 120; 116]); VNone; VN 4096; VN 128; d32 34;
         VSome (VStr [109; 118; 50; 58; 47; 47; 195; 169]); VNone; VN 1; VSome (VN 128);
         VSome (VList [VSome (VStr [97]); VSome (VN 9); VNone; VNone; VSome (VN 600); VSome (VList [VStr [114; 101; 100]]); VNone;
                       VSome (VList [VNone; VNone; VNone; VNone; VSome (VList [VN 4632233691727265792; VN 0])]);
                       VSome (VList [VSome (VN 1069547520); VNone; VSome (VN 2); VNone; VNone;
                                     VList [VList [VN 0; VN 1065353216; VNone]];
                                     VList [VPair [97] (VStr [49]); VPair [97; 98] (VStr []); VPair [98] (VStr [50])]]);
                       VNone]);
         VNone; VList [VStr [116; 49]; VStr []]; VList []; VList [VPair [] (VStr [118]); VPair [107] (VStr [119])];
         VList []; VSome (VList [VN 1200; VList [VList [VN 0; VN 1200]]]); VN 1; VSome (VN 0); VSome (VN 3); VSome (VN 9);
         VN 2; VNone; VSome (VN 5); VSome (d32 7); VNone; VN 1].
Definition sample_toc : value :=
  VList [VN 1; VList [VList [VN 0; VList [VN 0; VN 2]; d32 17; VN 1; VN 4096; VN 512]]; VList [sample_frame];
         VList [VSome (VList [VN 2; VN 1; VN 10; VN 20; d32 1]); VList [VList [VStr [112]; VN 1; VN 2; d32 2]];
                VSome (VList [VN 3; VN 384; VN 5; VN 6; d32 3; VN 1; VSome (VStr [109])]); VNone];
         VSome (VList [VN 8192; VN 96; VN 2; d32 68]); VNone; VSome (VList [VN 1; VN 2; VN 3; VN 4; d32 5]); VNone;
         VSome (VList [VN 1; VN 2; VN 3; VN 64; VN 0; d32 6]);
         VList [VN 0; VN 1; VB true; VList []; VList []; VList []; VList []; VList []; VList []];
         VList [VStr [109; 101; 109; 118; 105; 100]; VZ 0; VN 3600; VN 0; VB false]; VNone;
         VSome (VList [VN 1; VN 2; VN 3; VN 4; VN 1]); VList [VList [VList [VN 0; VN 1; VN 2; VN 3]]; VN 9]; d32 85; d32 0].
Example C30_toc_nonvacuous :
  wt toc_schema sample_toc = true /\ schema_ok toc_schema = true /\
  toc_decode (toc_encode sample_toc) = Ok sample_toc /\
  toc_decode (toc_encode sample_toc ++ [0]) = Err E_TRAILING /\
  length (toc_encode sample_toc) = 1208%nat.
Proof. vm_compute. repeat split; reflexivity. Qed.
