(* C03 Power-loss durability of synced data (protocol level, partial; same model as C02).
   Disk model: a completed fsync makes an inode's content durable; un-synced writes of an inode
   may be lost from the end (any prefix survives); an un-synced rename may be lost. *)
From MV Require Import Base.Prelude Model.FsProto Proofs.FsProtoProofs.

(* Staged commit: power loss at any point leaves the old or the new image; once commit has
   returned (all operations executed, including the directory fsync) only the new image. *)
Theorem C03_staged_commit_power_safe :
  forall (c : content) (t : list fsop), staged_commit_ok t = true ->
    (forall p q, t = p ++ q -> forall c', after_power_loss (exec (fs0 c) p) c' -> c' = c \/ c' = new_image c t) /\
    (forall c', after_power_loss (exec (fs0 c) t) c' -> c' = new_image c t).
Proof. exact staged_commit_power_safe. Qed.
Print Assumptions C03_staged_commit_power_safe.

(* A put that has returned: the record write was fsynced, so every power-loss image holds it. *)
Theorem C03_acknowledged_record_is_durable :
  forall (c : content) (r z : wr) (s : fs), synced c s ->
  forall c', after_power_loss (exec s [WriteMem r; FsyncMem; WriteMem z]) c' -> c' = c ++ [r] \/ c' = c ++ [r; z].
Proof. exact wal_append_durable. Qed.
Print Assumptions C03_acknowledged_record_is_durable.

(* ... and the fsync is necessary: before it the record may be lost. *)
Theorem C03_unsynced_record_may_be_lost :
  forall (c : content) (r : wr) (s : fs), synced c s -> after_power_loss (exec s [WriteMem r]) c.
Proof. exact wal_append_before_fsync_may_lose. Qed.
Print Assumptions C03_unsynced_record_may_be_lost.

Example C03_nonvacuous :
  let t := [FsyncMem; OpenTmp; CopyToTmp; FsyncTmp; WriteTmp (W 1); FsyncTmp; RenameTmp; FsyncDir] in
  staged_commit_ok t = true /\
  after_power_loss (exec (fs0 [W 0]) (firstn 7 t)) [W 0] /\ after_power_loss (exec (fs0 [W 0]) (firstn 7 t)) [W 0; W 1].
Proof.
  split; [reflexivity|]. split.
  - right. split; reflexivity.
  - left. exists 0%nat. reflexivity.
Qed.
