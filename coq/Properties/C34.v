(* C34 Chunk planning partitions the document text.
   Statements only; proofs live in Proofs/ChunksProofs.v (unstructured planner) and
   Proofs/StructChunkProofs.v (structured chunker).
   A text is the list of its characters; the three character tests of the code
   (`== '\n'`, is_sentence_terminal, char::is_whitespace) are arbitrary functions:
   every theorem of the unstructured half holds for ALL texts over ANY character type
   and ANY three tests. *)
From MV Require Import Base.Prelude Model.Chunks Proofs.ChunksProofs.
From MV Require Import Model.StructChunk Proofs.StructChunkProofs.
From MV Require Gen.Consts.

(* (1) build_chunk_manifest, every text, every chunk size 0 < chunk_chars < length:
       terminates with a result (no panic, fuel never runs out); the ranges are
       contiguous from 0 to the character count, each non-empty; the chunk texts
       (slice_text_range) concatenate to the text and none is empty; every range is at
       most chunk_chars + max(chunk_chars/5, 32) characters long. *)
Theorem C34_manifest_partitions_text :
  forall (A : Type) (is_nl is_term is_ws : A -> bool) (text : list A) (chunk_chars : nat),
    0 < chunk_chars -> chunk_chars < length text ->
    exists rs,
      build_chunk_manifest is_nl is_term is_ws text chunk_chars = Ok (Some rs) /\
      is_partition rs (length text) /\
      concat (map (slice_text_range text) rs) = text /\
      (forall c, In c (map (slice_text_range text) rs) -> c <> []) /\
      Forall (fun r => snd r - fst r <= chunk_chars + chunk_slack chunk_chars) rs.
Proof.
  intros A is_nl is_term is_ws text cc H0 H1.
  destruct (build_partition is_nl is_term is_ws text cc H0 H1) as (rs & E & _ & P & C & N & S).
  exists rs; auto.
Qed.
Print Assumptions C34_manifest_partitions_text.

(* (2) it returns None exactly for chunk_chars = 0 or a text of at most chunk_chars
       characters, and is total (some Ok result for every input). *)
Theorem C34_manifest_none_iff :
  forall (A : Type) (is_nl is_term is_ws : A -> bool) (text : list A) (chunk_chars : nat),
    build_chunk_manifest is_nl is_term is_ws text chunk_chars = Ok None <->
    chunk_chars = 0 \/ length text <= chunk_chars.
Proof. intros A. exact build_none_iff. Qed.
Print Assumptions C34_manifest_none_iff.

Theorem C34_manifest_total :
  forall (A : Type) (is_nl is_term is_ws : A -> bool) (text : list A) (chunk_chars : nat),
    exists r, build_chunk_manifest is_nl is_term is_ws text chunk_chars = Ok r.
Proof. intros A. exact build_total. Qed.
Print Assumptions C34_manifest_total.

(* (3) the property as stated, unstructured half: plan_text_chunks on a normalized text
       of at least CHUNK_MIN_CHARS (2400) characters without tables/code blocks returns
       a plan with chunk_chars = 1200 and at least two chunks whose ranges are
       contiguous, start at 0, end at the character count, are each non-empty, and
       whose chunk texts are non-empty and concatenate to the normalized text. *)
Theorem C34_unstructured_plan_partitions_text :
  forall (A : Type) (is_nl is_term is_ws : A -> bool) (normalized : list A) structural,
    CHUNK_MIN_CHARS <= length normalized ->
    exists rs,
      plan_text_chunks is_nl is_term is_ws (Some normalized) false structural
        = Ok (Some (DEFAULT_CHUNK_CHARS, rs, map (slice_text_range normalized) rs)) /\
      2 <= length rs /\
      is_partition rs (length normalized) /\
      concat (map (slice_text_range normalized) rs) = normalized /\
      (forall c, In c (map (slice_text_range normalized) rs) -> c <> []) /\
      Forall (fun r => snd r - fst r <= 1440) rs.
Proof. intros A. exact plan_text_unstructured. Qed.
Print Assumptions C34_unstructured_plan_partitions_text.

(* (4) below the threshold nothing is planned. *)
Theorem C34_below_threshold_no_plan :
  forall (A : Type) (is_nl is_term is_ws : A -> bool) (normalized : list A) hs structural,
    length normalized < CHUNK_MIN_CHARS ->
    plan_text_chunks is_nl is_term is_ws (Some normalized) hs structural = Ok None.
Proof. intros A. exact plan_text_below_threshold. Qed.
Print Assumptions C34_below_threshold_no_plan.

(* (5) the model's chunk size is the one in src/memvid/chunks.rs now (regenerated each run). *)
Theorem C34_consts_tied :
  N.of_nat DEFAULT_CHUNK_CHARS = MV.Gen.Consts.DEFAULT_CHUNK_CHARS /\
  CHUNK_MIN_CHARS = DEFAULT_CHUNK_CHARS * 2.
Proof. split; reflexivity. Qed.
Print Assumptions C34_consts_tied.

(* Non-vacuity: "ab. cd\nefgh ij! klm" with chunk_chars 4 (slack 32): the newline in the
   forward window wins, then the first forward terminal, then the end of the text;
   without the newline the terminal BEHIND the target wins (key 0). *)
Definition sample : list N := [97; 98; 46; 32; 99; 100; 10; 101; 102; 103; 104; 32; 105; 106; 33; 32; 107; 108; 109]%N.
Definition sample2 : list N := [97; 98; 46; 32; 99; 100; 32; 101; 102; 103; 104; 32; 105; 106; 33; 32; 107; 108; 109]%N.
Example C34_manifest_nonvacuous :
  cp_build_chunk_manifest sample 4 = Ok (Some [(0, 7); (7, 15); (15, 19)]) /\
  cp_build_chunk_manifest (sample ++ sample ++ sample ++ sample) 3
    = Ok (Some [(0, 7); (7, 26); (26, 45); (45, 64); (64, 72); (72, 73); (73, 76)]) /\
  cp_build_chunk_manifest (sample2 ++ sample2 ++ sample2) 4
    = Ok (Some [(0, 3); (3, 15); (15, 22); (22, 34); (34, 41); (41, 53); (53, 57)]) /\
  0 < 4 /\ 4 < length sample.
Proof. vm_compute. repeat split; repeat constructor. Qed.

(* a 2400-character text (100 x "abcdefgh ijklmnop qrstu. ") meets (3)'s hypothesis *)
Definition para : list N := [97;98;99;100;101;102;103;104;32;105;106;107;108;109;110;111;112;32;113;114;115;116;117;46]%N.
Definition long_text : list N := concat (repeat para 100).
Example C34_plan_nonvacuous :
  CHUNK_MIN_CHARS <= length long_text /\
  match cp_plan_text_chunks (Some long_text) false (Err 77%N) with
  | Ok (Some (cc, rs, chunks)) => cc = 1200 /\ rs = [(0, 1200); (1200, 2400)] /\ length chunks = 2
  | _ => False
  end.
Proof. vm_compute. repeat split; repeat constructor. Qed.

(* ================= structured half (tables, code): PARTIAL =================
   Modelled: StructuralChunker::chunk (options of plan_structural_chunks) over the
   element list that detect_structure returns, each element with its rendered strings
   (format(), format_header(), format_row(), raw_text).  NOT modelled: detect_structure
   itself (regex heuristics) and the renderers -- they are inputs.  Missing for a full
   proof of the coverage clause: a model of the detector relating the lines of the
   normalized text to the elements.  "No chunk is empty" is checked by the oracle on
   the implementation only. *)

(* (6) for ANY whitespace test, ANY max_chars, ANY element list: every non-blank string
       the chunker is handed (paragraph text, rendered heading / list / code block,
       table raw text or -- for a split table -- the header and every rendered row) is,
       trimmed, inside some chunk; splitting a table terminates and loses no row. *)
Theorem C34_structured_chunker_keeps_rendered_partial :
  forall (is_ws : N -> bool) (max_chars : nat) (doc : list elem) (e : elem) (R : str),
    In e doc -> In R (kept max_chars e) -> blank is_ws R = false ->
    covered (chunk_doc is_ws max_chars doc) (trim is_ws R).
Proof. exact chunk_doc_keeps. Qed.
Print Assumptions C34_structured_chunker_keeps_rendered_partial.

(* (7) the coverage clause as stated fails: a horizontal rule between a paragraph and a
       code block is detected as a Separator element, for which the chunker emits
       nothing; the line "***" is in no chunk. *)
Definition rule_doc : list selem :=
  [ (EPara [97; 98]%N, [[97; 98]%N]);
    (ESep, [[42; 42; 42]%N]);
    (ECode [96; 96; 96; 10; 120; 10; 96; 96; 96]%N, [[96; 96; 96]%N; [120]%N]) ].
Theorem C34_structured_coverage_refuted :
  exists (doc : list selem) (l : str),
    l <> [] /\ (exists se, In se doc /\ In l (snd se)) /\
    2 <= length (chunk_doc cp_is_ws DEFAULT_CHUNK_CHARS (map fst doc)) /\
    ~ covered (chunk_doc cp_is_ws DEFAULT_CHUNK_CHARS (map fst doc)) l.
Proof.
  exists rule_doc, [42; 42; 42]%N. split; [discriminate|]. split.
  { exists (ESep, [[42; 42; 42]%N]). split; [right; left; reflexivity | left; reflexivity]. }
  split; [vm_compute; repeat constructor|].
  apply not_covered_b. vm_compute. reflexivity.
Qed.
Print Assumptions C34_structured_coverage_refuted.

(* (8) outside the known class -- no line skipped by the detector, and every element's
       source lines are inside the strings the chunker keeps for it (known_class is a
       boolean function of the input; Corr.C34 evaluates it on every generated case and
       the harness files a lost line under a known finding only when it is true) --
       every non-empty line of the normalized text is inside some chunk. *)
Theorem C34_structured_coverage_outside_known :
  forall (is_ws : N -> bool) (max_chars : nat) (doc : list selem) (skipped : list str),
    known_class is_ws max_chars doc skipped = false ->
    forall l, l <> [] ->
      (In l skipped \/ exists se, In se doc /\ In l (snd se)) ->
      covered (chunk_doc is_ws max_chars (map fst doc)) l.
Proof. exact coverage_outside_known. Qed.
Print Assumptions C34_structured_coverage_outside_known.

(* Non-vacuity of (8): heading, paragraph, a table split in three parts (max_chars 20),
   a list and a code block; known_class is false and six chunks come out. *)
Definition A (s : list N) := s.
Definition clean_doc : list selem :=
  let row1 := [124;32;49;32;124]%N in let row2 := [124;32;50;32;124]%N in let row3 := [124;32;51;32;124]%N in
  let hdr := [124;32;97;32;124;10;124;45;45;45;124]%N in
  let raw := hdr ++ [10]%N ++ row1 ++ [10]%N ++ row2 ++ [10]%N ++ row3 in
  [ (EHeading [35;32;72]%N, [[35;32;72]%N]);
    (EPara [80;97;114;97;46]%N, [[80;97;114;97;46]%N]);
    (ETable raw hdr [(row1, 4); (row2, 4); (row3, 4)], [[124;32;97;32;124]%N; [124;45;45;45;124]%N; row1; row2; row3]);
    (EList [45;32;120;10;45;32;121]%N, [[45;32;120]%N; [45;32;121]%N]);
    (ECode [96;96;96;10;122;10;96;96;96]%N, [[96;96;96]%N; [122]%N]) ].
Example C34_structured_nonvacuous :
  known_class cp_is_ws 20 clean_doc [] = false /\
  length (chunk_doc cp_is_ws 20 (map fst clean_doc)) = 6 /\
  known_class cp_is_ws DEFAULT_CHUNK_CHARS rule_doc [] = true.
Proof. vm_compute. repeat split. Qed.
