(* C27 Memory-card queries are temporally consistent and persistent.
   Statements only; proofs live in Proofs/MemoriesProofs.v, the stable-sort facts in
   Base/SortFacts.v. *)
From MV Require Import Base.Prelude Base.SortFacts Model.Memories Proofs.MemoriesProofs.
From Coq Require Import String Permutation.
Local Open Scope Z_scope.

(* ---- Rust's sort_by is a stable sort; under a total preorder a stable sort is unique ---- *)
(* (S1) insertion sort is a stable sort: sorted, a permutation, ties keep their order *)
Theorem C27_stable_sort_spec :
  forall (A : Type) (leb : A -> A -> bool),
    (forall a b, leb a b = true \/ leb b a = true) ->
    (forall a b c, leb a b = true -> leb b c = true -> leb a c = true) ->
    forall l, sorted leb (isort leb l) /\ Permutation (isort leb l) l /\
              forall x, filter (equivb leb x) (isort leb l) = filter (equivb leb x) l.
Proof. exact isort_is_stable_sort. Qed.
Print Assumptions C27_stable_sort_spec.

(* (S2) whatever stable algorithm the library uses, its result is that list; merge sort too *)
Theorem C27_stable_sort_unique :
  forall (A : Type) (leb : A -> A -> bool),
    (forall a b, leb a b = true \/ leb b a = true) ->
    (forall a b c, leb a b = true -> leb b c = true -> leb a c = true) ->
    forall l l', sorted leb l' -> stable_of leb l l' -> l' = isort leb l.
Proof. exact stable_sort_unique. Qed.
Print Assumptions C27_stable_sort_unique.

Theorem C27_merge_sort_is_that_sort :
  forall (A : Type) (leb : A -> A -> bool),
    (forall a b, leb a b = true \/ leb b a = true) ->
    (forall a b c, leb a b = true -> leb b c = true -> leb a c = true) ->
    forall l, msort leb l = isort leb l.
Proof. exact msort_eq_isort. Qed.
Print Assumptions C27_merge_sort_is_that_sort.

(* ---- the queries, for EVERY track state (cards, ids and slot index arbitrary),
        every entity, slot and time ---- *)
(* (1) get_at_time never returns a card after t, never a retraction; it returns a stored card *)
Theorem C27_at_time_never_future_never_retraction :
  forall (tr : track) (e s : string) (t : Z) (c : card),
    get_at_time tr e s t = Some c ->
    eff c <= t /\ is_retracted c = false /\ In c (get_cards tr e s) /\ In c (t_cards tr).
Proof. exact get_at_time_sound. Qed.
Print Assumptions C27_at_time_never_future_never_retraction.

(* (2) at or beyond the latest card it equals get_current (the whole card, not just the id) *)
Theorem C27_at_time_late_is_current :
  forall (tr : track) (e s : string) (t : Z),
    (forall c, In c (t_cards tr) -> eff c <= t) ->
    get_at_time tr e s t = get_current tr e s.
Proof. exact get_at_time_late_all. Qed.
Print Assumptions C27_at_time_late_is_current.

(* (2') it is enough that t is at or beyond the cards of that slot *)
Theorem C27_at_time_late_is_current_slot :
  forall (tr : track) (e s : string) (t : Z),
    (forall c, In c (get_cards tr e s) -> eff c <= t) ->
    get_at_time tr e s t = get_current tr e s.
Proof. exact get_at_time_late. Qed.
Print Assumptions C27_at_time_late_is_current_slot.

(* (3) which card exactly, in terms of the order of get_cards: the first one among the
       non-retracted cards with eff <= t of greatest effective time; and none iff there is none *)
Theorem C27_at_time_is_first_of_the_latest :
  forall (tr : track) (e s : string) (t : Z) (c : card),
    get_at_time tr e s t = Some c <->
    exists l1 l2, filter (at_filter t) (get_cards tr e s) = l1 ++ c :: l2 /\
                  is_retracted c = false /\
                  (forall d, In d l1 -> is_retracted d = false -> eff d < eff c) /\
                  (forall d, In d l2 -> is_retracted d = false -> eff d <= eff c).
Proof. exact get_at_time_char. Qed.
Print Assumptions C27_at_time_is_first_of_the_latest.

Theorem C27_at_time_none_iff :
  forall (tr : track) (e s : string) (t : Z),
    get_at_time tr e s t = None <->
    forall d, In d (get_cards tr e s) -> eff d <= t -> is_retracted d = true.
Proof. exact get_at_time_none. Qed.
Print Assumptions C27_at_time_none_iff.

(* ---- tracks built by add_card from the empty track (any list of cards) ---- *)
(* (4) "latest" stated on the card set: c is returned iff it is an eligible card (stored, same
       lower-cased entity:slot key, eff <= t, not a retraction) and every eligible card is not
       later than c, where d is not later than c iff eff d < eff c, or eff d = eff c and d was
       not added after c (id d <= id c): among ties the card added LAST wins *)
Theorem C27_at_time_is_latest :
  forall (cs : list card) (e s : string) (t : Z) (c : card),
    get_at_time (build cs) e s t = Some c <->
    eligible (build cs) e s t c /\ forall d, eligible (build cs) e s t d -> not_later d c.
Proof. intros cs e s t c. apply at_time_latest, Inv_build. Qed.
Print Assumptions C27_at_time_is_latest.

Theorem C27_at_time_none_iff_no_eligible :
  forall (cs : list card) (e s : string) (t : Z),
    get_at_time (build cs) e s t = None <-> forall d, ~ eligible (build cs) e s t d.
Proof. intros cs e s t. apply at_time_none_iff, Inv_build. Qed.
Print Assumptions C27_at_time_none_iff_no_eligible.

Theorem C27_current_is_latest :
  forall (cs : list card) (e s : string) (c : card),
    get_current (build cs) e s = Some c <->
    (In c (t_cards (build cs)) /\ card_key c = slot_key e s /\ is_retracted c = false) /\
    forall d, In d (t_cards (build cs)) -> card_key d = slot_key e s -> is_retracted d = false ->
              not_later d c.
Proof. intros cs e s c. apply current_latest, Inv_build. Qed.
Print Assumptions C27_current_is_latest.

(* ---- persistence.  PARTIAL: the byte codecs (serde_json + zstd for the track, bincode + zstd
        for the mesh, the TOC manifest and its checksum) are not modelled; the model says what
        they do to the values (every field round-trips, except a non-finite f32 confidence which
        JSON writes as null; the mesh is stored in sorted order) and the correspondence run
        checks that on real files.  As stated -- for ALL card sets -- the property is
        refuted by the faithful model in one narrow class (a card whose confidence is NaN or
        infinite comes back with confidence None): ---- *)
Theorem C27_persist_refuted_nonfinite_confidence :
  exists ops, t_cards (s_track (mstep (mrun ops) Reopen)) <> t_cards (s_track (mrun ops)).
Proof. exact persist_refuted_nonfinite. Qed.
Print Assumptions C27_persist_refuted_nonfinite_confidence.

(* outside it (known_class ops = some card put with a non-finite confidence): after ANY history of put_memory_card(s) / add_mesh_node / add_mesh_edge /
   put_bytes / commit / reopen / crash, closing and reopening -- with or without an explicit
   commit -- gives back the identical track (every card, id, version key, index), and a mesh
   with the same nodes and edges, in the (unique, stable) serialisation order *)
Theorem C27_persist_outside_known :
  forall ops, known_class ops = false ->
    let s := mrun ops in
    s_track (mstep s Reopen) = s_track s /\
    s_track (mstep (mstep s Commit) Reopen) = s_track s /\
    s_track (mstep s Commit) = s_track s /\
    s_mesh (mstep s Reopen) = disk_mesh (s_mesh s) /\
    Permutation (m_nodes (s_mesh (mstep s Reopen))) (m_nodes (s_mesh s)) /\
    Permutation (m_edges (s_mesh (mstep s Reopen))) (m_edges (s_mesh s)).
Proof. exact reopen_preserves. Qed.
Print Assumptions C27_persist_outside_known.

(* a committed card set and mesh also survive the death of the process with any number of
   uncommitted frame records in the WAL (open loads the tracks, then replays the log) *)
Theorem C27_persist_crash_keeps_committed_outside_known :
  forall ops frames, known_class ops = false ->
    let s := mrun ops in
    s_track (fold_left mstep (Commit :: repeat PutFrame frames ++ [CrashReopen]) s) = s_track s /\
    s_mesh (fold_left mstep (Commit :: repeat PutFrame frames ++ [CrashReopen]) s) = disk_mesh (s_mesh s).
Proof. exact crash_keeps_committed. Qed.
Print Assumptions C27_persist_crash_keeps_committed_outside_known.

Theorem C27_mesh_order_is_stable_sort_and_idempotent :
  forall m,
    is_stable_sort node_leb (m_nodes m) (m_nodes (persist_mesh m)) /\
    is_stable_sort edge_leb (m_edges m) (m_edges (persist_mesh m)) /\
    persist_mesh (persist_mesh m) = persist_mesh m.
Proof.
  intro m. destruct (persist_mesh_stable_sort m) as [H1 H2].
  split; [exact H1|]. split; [exact H2|apply persist_mesh_idem].
Qed.
Print Assumptions C27_mesh_order_is_stable_sort_and_idempotent.

(* ---- non-vacuity ---- *)
Local Open Scope string_scope.
Definition mkc (e s v : string) (ev doc : option Z) (r : vrel) (created : Z) : card :=
  mkCard 77 e s v ev doc None r None created.
(* two ties at time 20 (ids 1 and 3), a retraction at 30, a later card of another slot,
   a mixed-case entity *)
Definition sample_cards : list card :=
  [ mkc "user" "city" "Paris" (Some 10) None Sets 1;
    mkc "User" "City" "Rome" None (Some 20) Updates 2;
    mkc "user" "job" "x" (Some 99) None Sets 3;
    mkc "USER" "city" "Oslo" (Some 20) (Some 5) Extends 4;
    mkc "user" "city" "Oslo" None None Retracts 30 ].

Example C27_nonvacuous_queries :
  option_map c_id (get_at_time (build sample_cards) "user" "CITY" 9) = None /\
  option_map c_id (get_at_time (build sample_cards) "user" "CITY" 10) = Some 0%N /\
  option_map c_id (get_at_time (build sample_cards) "user" "CITY" 19) = Some 0%N /\
  option_map c_id (get_at_time (build sample_cards) "user" "CITY" 20) = Some 3%N /\   (* tie: added last wins *)
  option_map c_id (get_at_time (build sample_cards) "user" "CITY" 30) = Some 3%N /\   (* the retraction is skipped *)
  option_map c_id (get_current (build sample_cards) "user" "city") = Some 3%N /\
  map c_id (get_cards (build sample_cards) "user" "city") = [4; 3; 1; 0]%N /\
  (forall c, In c (t_cards (build sample_cards)) -> eff c <= 99).
Proof.
  repeat split; try (vm_compute; reflexivity).
  intros c Hc. vm_compute in Hc.
  repeat (destruct Hc as [Hc|Hc]; [subst c; vm_compute; discriminate|]). destruct Hc.
Qed.

Example C27_nonvacuous_eligible :
  exists c, eligible (build sample_cards) "user" "city" 20 c /\ c_id c = 3%N /\
            get_at_time (build sample_cards) "user" "city" 20 = Some c.
Proof.
  eexists. split; [|split]; [| |vm_compute; reflexivity]; [|reflexivity].
  unfold eligible. vm_compute. repeat split; try discriminate. right; right; right; left; reflexivity.
Qed.

(* a history outside the known classes, with cards, a mesh, frames, commits and reopens *)
Definition sample_ops : list mop :=
  [ PutCard (mkc "user" "city" "Paris" (Some 10) None Sets 1);
    AddNode (mkNode 9 "zed" "Zed" 0 50 [1]%N [(1, 0, 3)]%N);
    AddNode (mkNode 2 "amy" "Amy" 0 50 [1]%N [(1, 4, 3)]%N);
    AddEdge (mkEdge 9 2 "manager" false 80 1);
    PutFrame; Commit;
    PutCards [mkc "user" "city" "Rome" None None Updates 7]; Reopen;
    PutFrame; Reopen; CrashReopen ].
Example C27_nonvacuous_persist :
  known_class sample_ops = false /\
  List.length (t_cards (s_track (mrun sample_ops))) = 2%nat /\
  map n_id (m_nodes (s_mesh (mrun sample_ops))) = [2; 9]%N.
Proof. vm_compute. repeat split. Qed.

Example C27_nonvacuous_stable_sort :
  isort Nat.leb [3; 1; 2; 1]%nat = [1; 1; 2; 3]%nat /\
  msort (fun a b : nat * nat => Nat.leb (fst a) (fst b)) [(2,0); (1,1); (2,2); (1,3); (0,4)]%nat
    = [(0,4); (1,1); (1,3); (2,0); (2,2)]%nat.
Proof. vm_compute. split; reflexivity. Qed.
