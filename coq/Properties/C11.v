(* C11 Time-travel search never returns frames from the future.
   "A search with as_of_frame = n returns only frames with id <= n, and a search with
    as_of_ts = t returns only frames with timestamp <= t.  Adding either filter never
    adds a hit that the unfiltered search did not return."

   Statements only; proofs live in Proofs/AsOfProofs.v.  The model (Model/AsOf.v) follows
   the candidate-filter composition at the top of Memvid::search and get_replay_frame_ids
   line by line, as of commit d76304f: when the filter built so far (date range ∩ temporal
   ∩ replay set) and the non-empty sketch candidate set are disjoint, the sketch pre-filter
   is dropped and the filter is kept (`Some(existing)`).

   First clause (no frame from the future): proved for ALL stores, requests, sketch
   candidate sets and engines, no class excluded (theorems 2, 3, 3').
   Second clause (adding a filter never adds a hit): REFUTED as stated
   (C11_monotone_refuted, finding F-C11-2): in that same branch the as-of request runs
   WITHOUT the sketch and finds a genuine match that the sketch rejects (a sketch false
   negative), while the request without as_of_* still runs with the sketch set and misses
   it.  Proved (4, 4') outside exactly that branch (sketch_disjoint), proved for all inputs
   (5, 5') under the hypothesis that the sketch has no false negative for the query, and
   proved with no condition for requests that do not run the sketch stage (6).  The root
   cause is sketch recall (property C09), not the as-of code.

   The code before d76304f replaced the filter by the sketch set in that branch and
   returned frames from the future (fixed finding F-C11-1); the lemmas C11_old_* at the
   end keep that refutation as history.

   The engine (Tantivy / lex fallback / filters-only scan + query evaluation) is a Section
   variable `engine : option (list N) -> list N` (frame ids returned for a candidate
   filter).  Assumed of it, and exercised by the correspondence run on real memories:
     engine_sound : with a filter, it returns only members of the filter;
   and, for the monotonicity clause only (requests that top_k / doc_limit do not truncate:
   the engine returns every match the filter admits):
     engine_mono  : a larger filter never loses a hit;
     engine_none  : a filter never adds a hit to the unfiltered result.
   With truncation the literal sentence is legitimately false (the filtered request
   surfaces lower-ranked frames that the unfiltered one cut off at top_k), so the
   monotonicity theorems are about the non-truncating regime. *)
From MV Require Import Base.Prelude Model.AsOf Proofs.AsOfProofs.

(* (1) get_replay_frame_ids returns exactly the active frames with id <= n (when
       as_of_frame = n is given) and timestamp <= t (when as_of_ts = t is given). *)
Theorem C11_replay_ids_exact :
  forall (frames : list frame) (aof : option N) (aot : option Z) (x : N),
    In x (replay_ids frames aof aot) <->
    exists f, In f frames /\ f_id f = x /\ f_active f = true /\
              (forall n, aof = Some n -> (f_id f <= n)%N) /\
              (forall t, aot = Some t -> (f_ts f <= t)%Z).
Proof. exact replay_ids_spec. Qed.
Print Assumptions C11_replay_ids_exact.

(* (2) whenever as_of_* is given, the final candidate filter exists and is a subset of
       the replay id set -- every store, request and sketch candidate set. *)
Theorem C11_filter_subset_replay :
  forall (st : store) (rq : request) (cands : list N) (cf : option (list N)),
    asof_given rq = true ->
    candidate_filter st rq cands = Cont cf ->
    exists l, cf = Some l /\
      forall x, In x l -> In x (replay_ids (st_frames st) (rq_as_of_frame rq) (rq_as_of_ts rq)).
Proof.
  intros st rq cands cf Ha Hc.
  exact (filter_subset_replay_gen true st rq cands cf Ha (or_introl eq_refl) Hc).
Qed.
Print Assumptions C11_filter_subset_replay.

(* (3) hence every hit is an active frame with id <= n and timestamp <= t. *)
Theorem C11_hits_not_future :
  forall (engine : option (list N) -> list N),
    (forall l x, In x (engine (Some l)) -> In x l) ->
  forall (st : store) (rq : request) (cands : list N) (x : N),
    asof_given rq = true ->
    In x (search_ids engine st rq cands) ->
    exists f, In f (st_frames st) /\ f_id f = x /\ f_active f = true /\
              (forall n, rq_as_of_frame rq = Some n -> (x <= n)%N) /\
              (forall t, rq_as_of_ts rq = Some t -> (f_ts f <= t)%Z).
Proof.
  intros engine Hs st rq cands x Ha H.
  exact (hits_not_future_gen engine Hs true st rq cands x Ha (or_introl eq_refl) H).
Qed.
Print Assumptions C11_hits_not_future.

(* (3') frame ids are unique in a real table (frame.id is the index): then THE frame that
        carries the hit's id is active, has id <= n and timestamp <= t. *)
Theorem C11_hit_frame_not_future :
  forall (engine : option (list N) -> list N),
    (forall l x, In x (engine (Some l)) -> In x l) ->
  forall (st : store) (rq : request) (cands : list N) (x : N) (f : frame),
    NoDup (map f_id (st_frames st)) ->
    asof_given rq = true ->
    In x (search_ids engine st rq cands) ->
    In f (st_frames st) -> f_id f = x ->
    f_active f = true /\
    (forall n, rq_as_of_frame rq = Some n -> (f_id f <= n)%N) /\
    (forall t, rq_as_of_ts rq = Some t -> (f_ts f <= t)%Z).
Proof.
  intros engine Hs st rq cands x f Hnd Ha H Hf Ef.
  exact (hits_not_future_unique_gen engine Hs true st rq cands x f Hnd Ha (or_introl eq_refl) H Hf Ef).
Qed.
Print Assumptions C11_hit_frame_not_future.

(* ---- second clause ------------------------------------------------------------------- *)

(* the refutation (finding F-C11-2).  Four active frames; the query matches frames 1 and 3
   (engine table [1;3]); the sketch candidates are {3}: frame 1 is a sketch false negative.
   as_of_frame = 1: the replay set {0,1} and the sketch set {3} are disjoint, the sketch is
   dropped, the filter {0,1} is kept and frame 1 is returned -- correctly inside the window.
   The same request without as_of_* runs with the sketch set {3} and returns only frame 3. *)
Definition w_frames : list frame :=
  [mkFrame 0 10 true; mkFrame 1 20 true; mkFrame 2 30 true; mkFrame 3 40 true].
Definition w_store : store := mkStore w_frames None true.
Definition w_rq_frame : request := mkReq None None (Some 1%N) None true false.
Definition w_rq_ts : request := mkReq None None None (Some 25%Z) true false.
Definition w_cands : list N := [3%N].
Definition w_engine := table_engine [1%N; 3%N].

Theorem C11_monotone_refuted :
  exists (engine : option (list N) -> list N) (st : store) (rq : request) (cands : list N) (x : N),
    (forall l y, In y (engine (Some l)) -> In y l) /\
    (forall l1 l2, incl l1 l2 -> incl (engine (Some l1)) (engine (Some l2))) /\
    (forall l, incl (engine (Some l)) (engine None)) /\
    In x (search_ids engine st rq cands) /\
    ~ In x (search_ids engine st (drop_as_of rq) cands) /\
    sketch_disjoint st rq cands = true /\
    (* x is a genuine match the sketch rejects *)
    In x (engine None) /\ ~ In x cands.
Proof.
  exists w_engine, w_store, w_rq_frame, w_cands, 1%N.
  split; [intros l y; apply table_engine_sound|].
  split; [apply table_engine_mono|]. split; [apply table_engine_none|].
  vm_compute. repeat split; auto; intros [H|H]; try discriminate; destruct H; discriminate.
Qed.
Print Assumptions C11_monotone_refuted.

(* (4) adding as_of_* never adds a hit, outside the empty-intersection branch. *)
Theorem C11_monotone_outside_known :
  forall (engine : option (list N) -> list N),
    (forall l x, In x (engine (Some l)) -> In x l) ->
    (forall l1 l2, incl l1 l2 -> incl (engine (Some l1)) (engine (Some l2))) ->
    (forall l, incl (engine (Some l)) (engine None)) ->
  forall (st : store) (rq : request) (cands : list N) (x : N),
    sketch_disjoint st rq cands = false ->
    In x (search_ids engine st rq cands) ->
    In x (search_ids engine st (drop_as_of rq) cands).
Proof.
  intros engine Hs Hm Hn st rq cands x Hk H.
  exact (monotone_gen engine Hs Hm Hn true st rq cands (or_introl Hk) x H).
Qed.
Print Assumptions C11_monotone_outside_known.

(* (4') "adding EITHER filter": tightening a cut-off, or adding one next to the other,
        never adds a hit.  cut_le_N c c' / cut_le_Z c c' = "c' is no cut-off, or both are
        given and c <= c'"; with_as_of rq a t = rq with the cut-offs a, t. *)
Theorem C11_tighten_monotone_outside_known :
  forall (engine : option (list N) -> list N),
    (forall l x, In x (engine (Some l)) -> In x l) ->
    (forall l1 l2, incl l1 l2 -> incl (engine (Some l1)) (engine (Some l2))) ->
    (forall l, incl (engine (Some l)) (engine None)) ->
  forall (st : store) (rq : request) (aof' : option N) (aot' : option Z) (cands : list N) (x : N),
    cut_le_N (rq_as_of_frame rq) aof' = true ->
    cut_le_Z (rq_as_of_ts rq) aot' = true ->
    sketch_disjoint st rq cands = false ->
    In x (search_ids engine st rq cands) ->
    In x (search_ids engine st (with_as_of rq aof' aot') cands).
Proof.
  intros engine Hs Hm Hn st rq aof' aot' cands x H1 H2 Hk H.
  exact (monotone_weaker_gen engine Hs Hm Hn true st rq aof' aot' cands H1 H2 (or_introl Hk) x H).
Qed.
Print Assumptions C11_tighten_monotone_outside_known.

(* (5) for ALL inputs, when the sketch has no false negative for the query (everything the
       engine returns unfiltered is among the sketch candidates). *)
Theorem C11_monotone_if_sketch_complete :
  forall (engine : option (list N) -> list N),
    (forall l x, In x (engine (Some l)) -> In x l) ->
    (forall l1 l2, incl l1 l2 -> incl (engine (Some l1)) (engine (Some l2))) ->
    (forall l, incl (engine (Some l)) (engine None)) ->
  forall (st : store) (rq : request) (cands : list N) (x : N),
    (forall y, In y (engine None) -> In y cands) ->
    In x (search_ids engine st rq cands) ->
    In x (search_ids engine st (drop_as_of rq) cands).
Proof.
  intros engine Hs Hm Hn st rq cands x Hc H.
  exact (monotone_gen engine Hs Hm Hn true st rq cands (or_intror (conj eq_refl Hc)) x H).
Qed.
Print Assumptions C11_monotone_if_sketch_complete.

(* (5') *)
Theorem C11_tighten_monotone_if_sketch_complete :
  forall (engine : option (list N) -> list N),
    (forall l x, In x (engine (Some l)) -> In x l) ->
    (forall l1 l2, incl l1 l2 -> incl (engine (Some l1)) (engine (Some l2))) ->
    (forall l, incl (engine (Some l)) (engine None)) ->
  forall (st : store) (rq : request) (aof' : option N) (aot' : option Z) (cands : list N) (x : N),
    cut_le_N (rq_as_of_frame rq) aof' = true ->
    cut_le_Z (rq_as_of_ts rq) aot' = true ->
    (forall y, In y (engine None) -> In y cands) ->
    In x (search_ids engine st rq cands) ->
    In x (search_ids engine st (with_as_of rq aof' aot') cands).
Proof.
  intros engine Hs Hm Hn st rq aof' aot' cands x H1 H2 Hc H.
  exact (monotone_weaker_gen engine Hs Hm Hn true st rq aof' aot' cands H1 H2 (or_intror (conj eq_refl Hc)) x H).
Qed.
Print Assumptions C11_tighten_monotone_if_sketch_complete.

(* (6) requests that do not run the sketch stage (no_sketch, no text terms, or no sketches
       in the memory): monotone with no condition at all. *)
Theorem C11_tighten_monotone_without_sketch :
  forall (engine : option (list N) -> list N),
    (forall l x, In x (engine (Some l)) -> In x l) ->
    (forall l1 l2, incl l1 l2 -> incl (engine (Some l1)) (engine (Some l2))) ->
    (forall l, incl (engine (Some l)) (engine None)) ->
  forall (st : store) (rq : request) (aof' : option N) (aot' : option Z) (cands : list N) (x : N),
    sketch_on st rq = false ->
    cut_le_N (rq_as_of_frame rq) aof' = true ->
    cut_le_Z (rq_as_of_ts rq) aot' = true ->
    In x (search_ids engine st rq cands) ->
    In x (search_ids engine st (with_as_of rq aof' aot') cands).
Proof.
  intros engine Hs Hm Hn st rq aof' aot' cands x Hoff H1 H2 H.
  exact (monotone_no_sketch_gen engine Hs Hm Hn true st rq aof' aot' cands Hoff H1 H2 x H).
Qed.
Print Assumptions C11_tighten_monotone_without_sketch.

(* what happens inside the known class: the engine is handed exactly the filter built so
   far (hard filters kept, sketch dropped), which has no member in the sketch set -- so
   every hit of such a request is a frame the sketch rejects (and, by (3), not from the
   future). *)
Theorem C11_known_class_characterised :
  forall (engine : option (list N) -> list N),
    (forall l x, In x (engine (Some l)) -> In x l) ->
  forall (st : store) (rq : request) (cands : list N) (x : N),
    sketch_disjoint st rq cands = true ->
    (exists existing, pre_sketch st rq = Cont (Some existing) /\ existing <> [] /\ cands <> [] /\
                      candidate_filter st rq cands = Cont (Some existing)) /\
    (In x (search_ids engine st rq cands) -> ~ In x cands).
Proof.
  intros engine Hs st rq cands x Hk.
  destruct (disjoint_keeps_hard_filter st rq cands Hk) as [l [Ep [Hl [Hc [Hf Hout]]]]].
  split; [exists l; auto|].
  unfold search_ids, search_ids_gen. fold candidate_filter. rewrite Hf.
  intros Hx Hin. apply (Hout x Hin). eapply Hs. exact Hx.
Qed.
Print Assumptions C11_known_class_characterised.

(* ---- non-vacuity ---------------------------------------------------------------------
   The engine hypotheses are satisfiable (every table engine meets all three), and the
   hypotheses of the theorems are met by a request that really filters: six frames, one
   deleted, timestamps not monotone in the id, a date range, both cut-offs, sketches on with
   candidates {1,2,4,5} = everything the engine matches (sketch complete): replay set
   {0,1,4} -> date ∩ replay = {1,4} -> ∩ sketch = {1,4}; hits {1,4}; without as_of_* the
   hits are {1,2,4,5}. *)
Example C11_engine_hypotheses_satisfiable :
  forall U : list N,
    (forall l x, In x (table_engine U (Some l)) -> In x l) /\
    (forall l1 l2, incl l1 l2 -> incl (table_engine U (Some l1)) (table_engine U (Some l2))) /\
    (forall l, incl (table_engine U (Some l)) (table_engine U None)).
Proof.
  intros U. split; [apply table_engine_sound|]. split; [apply table_engine_mono | apply table_engine_none].
Qed.

Definition nv_frames : list frame :=
  [mkFrame 0 500 true; mkFrame 1 100 true; mkFrame 2 900 true; mkFrame 3 50 false;
   mkFrame 4 300 true; mkFrame 5 200 true].
Definition nv_store : store :=
  mkStore nv_frames (Some [(100%Z, 1%N); (200%Z, 5%N); (300%Z, 4%N); (500%Z, 0%N); (900%Z, 2%N)]) true.
Definition nv_rq : request :=
  mkReq (Some (Some 60, Some 950)%Z) None (Some 4%N) (Some 500%Z) true false.
Definition nv_cands : list N := [1; 2; 4; 5]%N.
Definition nv_engine := table_engine [1; 2; 4; 5]%N.

Example C11_nonvacuous :
  asof_given nv_rq = true /\ sketch_disjoint nv_store nv_rq nv_cands = false /\
  NoDup (map f_id (st_frames nv_store)) /\
  (forall y, In y (nv_engine None) -> In y nv_cands) /\
  replay_ids nv_frames (Some 4%N) (Some 500%Z) = [0; 1; 4]%N /\
  candidate_filter nv_store nv_rq nv_cands = Cont (Some [1; 4]%N) /\
  search_ids nv_engine nv_store nv_rq nv_cands = [1; 4]%N /\
  search_ids nv_engine nv_store (drop_as_of nv_rq) nv_cands = [1; 2; 4; 5]%N /\
  (* (4'): only as_of_ts = 500 (the frame cut-off removed): {1,4,5} *)
  cut_le_N (rq_as_of_frame nv_rq) None = true /\ cut_le_Z (rq_as_of_ts nv_rq) (Some 500%Z) = true /\
  search_ids nv_engine nv_store (with_as_of nv_rq None (Some 500%Z)) nv_cands = [1; 4; 5]%N.
Proof.
  split; [reflexivity|]. split; [vm_compute; reflexivity|].
  split; [repeat constructor; cbn; intuition discriminate|].
  split; [intros y H; exact H|].
  vm_compute. repeat split.
Qed.

(* the early exits are reachable: cut-off below every frame (site 5), date range disjoint
   from the replay set (site 6); the empty-intersection branch is reachable and keeps the
   replay set as the filter (witness of F-C11-2, and the request of fixed F-C11-1 whose
   only match is frame 3: nothing is returned any more) *)
Example C11_branches_reachable :
  candidate_filter nv_store (mkReq None None None (Some 10%Z) true false) nv_cands = Exit 5 /\
  candidate_filter nv_store (mkReq (Some (Some 800, None)%Z) None (Some 1%N) None true false) nv_cands = Exit 6 /\
  sketch_disjoint w_store w_rq_frame w_cands = true /\
  candidate_filter w_store w_rq_frame w_cands = Cont (Some [0; 1]%N) /\
  search_ids w_engine w_store w_rq_frame w_cands = [1%N] /\
  search_ids (table_engine [3%N]) w_store w_rq_frame w_cands = [] /\
  search_ids (table_engine [3%N]) w_store w_rq_ts w_cands = [].
Proof. vm_compute. repeat split. Qed.

(* ---- history: the composition before commit d76304f (fixed finding F-C11-1) -----------
   candidate_filter_old / search_ids_old fall back to the sketch set in the
   empty-intersection branch.  Kept so that a revert is recognisable: the correspondence
   runners C11_run / C11_trunc_run (old code) disagree with the implementation there. *)

(* the current composition differs from the old one only in that branch *)
Lemma C11_agrees_with_old_outside_disjoint :
  forall (st : store) (rq : request) (cands : list N),
    sketch_disjoint st rq cands = false ->
    candidate_filter st rq cands = candidate_filter_old st rq cands.
Proof. exact agrees_with_old_outside_disjoint. Qed.
Print Assumptions C11_agrees_with_old_outside_disjoint.

(* the old code returned frame 3 for as_of_frame = 1 (and for as_of_ts = 25, frame 3 has
   timestamp 40) *)
Lemma C11_old_as_of_refuted :
  exists (engine : option (list N) -> list N) (st : store) (rq : request) (cands : list N) (x : N) (f : frame),
    (forall l y, In y (engine (Some l)) -> In y l) /\
    NoDup (map f_id (st_frames st)) /\
    rq_as_of_frame rq = Some 1%N /\
    In x (search_ids_old engine st rq cands) /\
    In f (st_frames st) /\ f_id f = x /\ (1 < f_id f)%N /\
    sketch_disjoint st rq cands = true /\
    replay_ids (st_frames st) (rq_as_of_frame rq) (rq_as_of_ts rq) = [0%N; 1%N] /\ cands = [3%N].
Proof.
  exists (table_engine [3%N]), w_store, w_rq_frame, w_cands, 3%N, (mkFrame 3 40 true).
  split; [intros l y; apply table_engine_sound|].
  split; [repeat constructor; cbn; intuition discriminate|].
  vm_compute. repeat split; auto.
Qed.
Print Assumptions C11_old_as_of_refuted.

Lemma C11_old_as_of_ts_refuted :
  exists (engine : option (list N) -> list N) (st : store) (rq : request) (cands : list N) (x : N) (f : frame),
    (forall l y, In y (engine (Some l)) -> In y l) /\
    NoDup (map f_id (st_frames st)) /\
    rq_as_of_ts rq = Some 25%Z /\
    In x (search_ids_old engine st rq cands) /\
    In f (st_frames st) /\ f_id f = x /\ (25 < f_ts f)%Z /\
    sketch_disjoint st rq cands = true.
Proof.
  exists (table_engine [3%N]), w_store, w_rq_ts, w_cands, 3%N, (mkFrame 3 40 true).
  split; [intros l y; apply table_engine_sound|].
  split; [repeat constructor; cbn; intuition discriminate|].
  vm_compute. repeat split; auto.
Qed.
Print Assumptions C11_old_as_of_ts_refuted.

(* in that branch, with only as_of_* given, the old code handed the engine only ids outside
   the replay set, and ran the request with and without as_of_* on the very same filter *)
Lemma C11_old_fallback_characterised :
  forall (st : store) (rq : request) (cands : list N) (x : N),
    rq_date rq = None -> rq_temporal rq = None -> asof_given rq = true ->
    sketch_disjoint st rq cands = true ->
    candidate_filter_old st rq cands = Cont (Some cands) /\
    candidate_filter_old st (drop_as_of rq) cands = Cont (Some cands) /\
    (In x cands -> ~ In x (replay_ids (st_frames st) (rq_as_of_frame rq) (rq_as_of_ts rq))).
Proof.
  intros st rq cands x Hd Ht Ha Hk.
  destruct (old_fallback_all_future st rq cands x Hd Ht Ha Hk) as [H1 H2].
  destruct (old_fallback_ignores_asof st rq cands Hd Ht Hk) as [_ H3]. auto.
Qed.
Print Assumptions C11_old_fallback_characterised.
