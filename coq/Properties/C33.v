(* C33 Text normalization invariants (src/text.rs: normalize_text, truncate_at_grapheme_boundary).
   Statements only; proofs are in Proofs/TextProofs.v; the model (Model/Text.v) follows the Rust
   code line by line over lists of code points with exact UTF-8 byte widths.

   The Unicode tables are NOT part of the model: every theorem quantifies over
     nfkc : list cp -> list cp,  is_control, is_whitespace : cp -> bool,
     graphemes : list cp -> list (list cp)
   and assumes only the facts listed in its statement, taken from
     W_sp  is_whitespace ' ' = true        W_nl  is_whitespace '\n' = true
     C_sp  is_control ' ' = false
     G_cat concat (graphemes s) = s        G_ne  no grapheme is empty
   (`oracles_ok` is their conjunction).  No theorem assumes anything about nfkc except where an
   explicit hypothesis `nfkc out = out` / idempotence appears.

   Result on the unchanged implementation.  Proved for ALL inputs and limits: no control character
   but '\n', no leading whitespace, whitespace is only ' ' / '\n' and never two in a row (no double
   spaces, no blank lines), byte bound with the first-grapheme exception, output = whole graphemes
   of the trimmed text and the cut is maximal, text never empty, truncate_at_grapheme_boundary.
   REFUTED as stated, in two narrow classes recorded as known findings:
     F-C33-1 nfkc-shielded-by-removed-control   "output is NFKC" and "normalizing an untruncated
             output again returns it unchanged": the control filter runs after NFKC, so a removed
             control character may have separated code points that NFKC composes / reorders
             ("a\u{1}\u{301} b" -> "a\u{301} b" -> second pass "\u{e1} b").
     F-C33-2 trailing-whitespace-after-truncation   "no trailing whitespace": trimming runs before
             truncation, so a cut right after a ' ' / '\n' grapheme leaves it at the end
             ("ab cd", limit 3 -> "ab ").
   Outside the classes the clauses are proved (C33_*_outside_known); idempotence is proved for every
   untruncated output that NFKC leaves unchanged. *)
From MV Require Import Base.Prelude Model.Text Proofs.TextProofs.
Local Open Scope N_scope.

(* (1) no control characters other than newline (and no '\r', no '\t' at all) *)
Theorem C33_no_control_except_newline :
  forall nfkc is_control is_whitespace graphemes,
    is_control SP = false ->
    (forall s, concat (graphemes s) = s) -> (forall s, Forall (fun g => g <> []) (graphemes s)) ->
    forall input limit out tr,
      normalize_text nfkc is_control is_whitespace graphemes input limit = Some (out, tr) ->
      Forall (fun c => (is_control c = false \/ c = NL) /\ c <> CR /\ c <> TAB) out.
Proof. exact no_control. Qed.
Print Assumptions C33_no_control_except_newline.

(* (2) whitespace shape: every whitespace character of the output is ' ' or '\n', no two
       whitespace characters are adjacent, the first character is not whitespace *)
Theorem C33_whitespace_shape :
  forall nfkc is_control is_whitespace graphemes,
    is_whitespace SP = true -> is_control SP = false ->
    (forall s, concat (graphemes s) = s) -> (forall s, Forall (fun g => g <> []) (graphemes s)) ->
    forall input limit out tr,
      normalize_text nfkc is_control is_whitespace graphemes input limit = Some (out, tr) ->
      Forall (fun c => is_whitespace c = true -> c = SP \/ c = NL) out /\
      (forall a b, adjacent a b out -> ~ (is_whitespace a = true /\ is_whitespace b = true)) /\
      is_whitespace (hd 0 out) = false.
Proof. exact whitespace_shape. Qed.
Print Assumptions C33_whitespace_shape.

(*     hence no runs of spaces, no blank lines, no space next to a newline *)
Theorem C33_no_double_space_no_blank_line :
  forall nfkc is_control is_whitespace graphemes,
    is_whitespace SP = true -> is_whitespace NL = true -> is_control SP = false ->
    (forall s, concat (graphemes s) = s) -> (forall s, Forall (fun g => g <> []) (graphemes s)) ->
    forall input limit out tr,
      normalize_text nfkc is_control is_whitespace graphemes input limit = Some (out, tr) ->
      ~ adjacent SP SP out /\ ~ adjacent NL NL out /\ ~ adjacent SP NL out /\ ~ adjacent NL SP out.
Proof. exact no_runs. Qed.
Print Assumptions C33_no_double_space_no_blank_line.

(* (3) trailing whitespace.  Untruncated outputs have none ... *)
Theorem C33_untruncated_no_trailing_whitespace :
  forall nfkc is_control is_whitespace graphemes,
    (forall s, concat (graphemes s) = s) -> (forall s, Forall (fun g => g <> []) (graphemes s)) ->
    forall input limit out,
      normalize_text nfkc is_control is_whitespace graphemes input limit = Some (out, false) ->
      is_whitespace (last out 0) = false.
Proof. exact untruncated_no_trailing_ws. Qed.
Print Assumptions C33_untruncated_no_trailing_whitespace.

(*     ... but the clause as stated is refuted (witness "ab cd", limit 3 -> "ab ", truncated) *)
Theorem C33_trailing_whitespace_refuted :
  exists nfkc is_control is_whitespace graphemes,
    oracles_ok is_control is_whitespace graphemes /\
    exists input limit out,
      normalize_text nfkc is_control is_whitespace graphemes input limit = Some (out, true) /\
      is_whitespace (last out 0) = true /\
      known_trailing nfkc is_control is_whitespace graphemes input limit = true.
Proof. exact trailing_refuted. Qed.
Print Assumptions C33_trailing_whitespace_refuted.

(*     known_trailing := truncated && last character of the output is whitespace *)
Theorem C33_trailing_whitespace_outside_known :
  forall nfkc is_control is_whitespace graphemes,
    (forall s, concat (graphemes s) = s) -> (forall s, Forall (fun g => g <> []) (graphemes s)) ->
    forall input limit out tr,
      normalize_text nfkc is_control is_whitespace graphemes input limit = Some (out, tr) ->
      known_trailing nfkc is_control is_whitespace graphemes input limit = false ->
      is_whitespace (last out 0) = false.
Proof. exact trailing_outside_known. Qed.
Print Assumptions C33_trailing_whitespace_outside_known.

(*     the class is exact *)
Theorem C33_trailing_class_exact :
  forall nfkc is_control is_whitespace graphemes input limit out tr,
    (forall s, concat (graphemes s) = s) -> (forall s, Forall (fun g => g <> []) (graphemes s)) ->
    normalize_text nfkc is_control is_whitespace graphemes input limit = Some (out, tr) ->
    (is_whitespace (last out 0) = true <->
     known_trailing nfkc is_control is_whitespace graphemes input limit = true).
Proof. exact trailing_iff_known. Qed.
Print Assumptions C33_trailing_class_exact.

(* (4)+(5) the output is the concatenation of the first k >= 1 graphemes of the trimmed text (it
       ends on a grapheme boundary); it has at most `limit` bytes unless it is the first grapheme
       alone; untruncated means nothing was cut; truncated means the next grapheme does not fit
       (or the fallback returned an over-long first grapheme).  limit 0 acts as limit 1. *)
Theorem C33_length_bound_and_grapheme_boundary :
  forall nfkc is_control is_whitespace graphemes,
    (forall s, concat (graphemes s) = s) -> (forall s, Forall (fun g => g <> []) (graphemes s)) ->
    forall input limit out tr,
      normalize_text nfkc is_control is_whitespace graphemes input limit = Some (out, tr) ->
      let gs := graphemes (trimmed_of nfkc is_control is_whitespace input) in
      exists k : nat,
        (1 <= k <= length gs)%nat /\
        out = concat (firstn k gs) /\
        (byte_len out <= limit \/ k = 1%nat) /\
        (byte_len out <= N.max limit 1 \/ (k = 1%nat /\ tr = true)) /\
        (tr = false -> out = trimmed_of nfkc is_control is_whitespace input) /\
        (tr = true -> N.max limit 1 < byte_len (concat (firstn (S k) gs)) \/
                      (k = 1%nat /\ N.max limit 1 < byte_len out)).
Proof. exact length_and_boundary. Qed.
Print Assumptions C33_length_bound_and_grapheme_boundary.

(*     the result is None exactly when nothing but whitespace is left, and Some text is never empty *)
Theorem C33_none_iff_blank :
  forall nfkc is_control is_whitespace graphemes input limit,
    normalize_text nfkc is_control is_whitespace graphemes input limit = None <->
    trimmed_of nfkc is_control is_whitespace input = [].
Proof. exact normalize_none_iff. Qed.
Print Assumptions C33_none_iff_blank.

Theorem C33_output_nonempty :
  forall nfkc is_control is_whitespace graphemes,
    (forall s, concat (graphemes s) = s) -> (forall s, Forall (fun g => g <> []) (graphemes s)) ->
    forall input limit out tr,
      normalize_text nfkc is_control is_whitespace graphemes input limit = Some (out, tr) -> out <> [].
Proof. exact out_nonempty. Qed.
Print Assumptions C33_output_nonempty.

(* (6) truncate_at_grapheme_boundary: the index is the byte length of the first k graphemes (a
       grapheme boundary, s splits there), it is len(s) when s fits, at most `limit` unless it is
       the first grapheme alone, never 0 for a non-empty s, and the next boundary exceeds limit *)
Theorem C33_truncate_at_grapheme_boundary :
  forall graphemes,
    (forall s, concat (graphemes s) = s) -> (forall s, Forall (fun g => g <> []) (graphemes s)) ->
    forall s limit,
      let gs := graphemes s in
      let r := truncate_at_grapheme_boundary graphemes s limit in
      (byte_len s <= limit -> r = byte_len s) /\
      exists k : nat,
        (k <= length gs)%nat /\ (s <> [] -> (1 <= k)%nat) /\
        r = byte_len (concat (firstn k gs)) /\
        s = concat (firstn k gs) ++ concat (skipn k gs) /\
        (r <= limit \/ k = 1%nat) /\
        (k = length gs \/ limit < byte_len (concat (firstn (S k) gs))).
Proof. exact truncate_spec. Qed.
Print Assumptions C33_truncate_at_grapheme_boundary.

(*     the two functions agree: the text normalize_text returns has exactly the byte length that
       truncate_at_grapheme_boundary computes for the trimmed text and limit.max(1) *)
Theorem C33_normalize_cuts_where_truncate_says :
  forall nfkc is_control is_whitespace graphemes,
    (forall s, concat (graphemes s) = s) -> (forall s, Forall (fun g => g <> []) (graphemes s)) ->
    forall input limit out tr,
      normalize_text nfkc is_control is_whitespace graphemes input limit = Some (out, tr) ->
      byte_len out =
      truncate_at_grapheme_boundary graphemes (trimmed_of nfkc is_control is_whitespace input) (N.max limit 1).
Proof. exact truncation_agrees. Qed.
Print Assumptions C33_normalize_cuts_where_truncate_says.

(* (7) idempotence, conditionally: an untruncated output that NFKC leaves unchanged is a fixed
       point -- for the same limit and for any limit it fits in *)
Theorem C33_idempotent_if_output_nfkc_stable :
  forall nfkc is_control is_whitespace graphemes,
    is_whitespace SP = true -> is_whitespace NL = true -> is_control SP = false ->
    (forall s, concat (graphemes s) = s) -> (forall s, Forall (fun g => g <> []) (graphemes s)) ->
    forall input limit out limit2,
      normalize_text nfkc is_control is_whitespace graphemes input limit = Some (out, false) ->
      nfkc out = out ->
      byte_len out <= N.max limit2 1 ->
      normalize_text nfkc is_control is_whitespace graphemes out limit2 = Some (out, false).
Proof. exact second_pass. Qed.
Print Assumptions C33_idempotent_if_output_nfkc_stable.

Theorem C33_idempotent_same_limit :
  forall nfkc is_control is_whitespace graphemes,
    is_whitespace SP = true -> is_whitespace NL = true -> is_control SP = false ->
    (forall s, concat (graphemes s) = s) -> (forall s, Forall (fun g => g <> []) (graphemes s)) ->
    forall input limit out,
      normalize_text nfkc is_control is_whitespace graphemes input limit = Some (out, false) ->
      nfkc out = out ->
      normalize_text nfkc is_control is_whitespace graphemes out limit = Some (out, false).
Proof. exact idempotent_if_nfkc_stable. Qed.
Print Assumptions C33_idempotent_same_limit.

(* (8) "output is NFKC" and unconditional idempotence are refuted: with an idempotent nfkc that
       composes 'a' + U+0301 (as the real one does) and an input that is itself NFKC-stable *)
Theorem C33_nfkc_refuted :
  exists nfkc is_control is_whitespace graphemes,
    oracles_ok is_control is_whitespace graphemes /\ (forall s, nfkc (nfkc s) = nfkc s) /\
    exists input limit out,
      nfkc input = input /\
      normalize_text nfkc is_control is_whitespace graphemes input limit = Some (out, false) /\
      nfkc out <> out /\
      known_shield nfkc is_control is_whitespace graphemes input limit = true.
Proof. exact nfkc_refuted. Qed.
Print Assumptions C33_nfkc_refuted.

Theorem C33_idempotence_refuted :
  exists nfkc is_control is_whitespace graphemes,
    oracles_ok is_control is_whitespace graphemes /\ (forall s, nfkc (nfkc s) = nfkc s) /\
    exists input limit out out2,
      normalize_text nfkc is_control is_whitespace graphemes input limit = Some (out, false) /\
      normalize_text nfkc is_control is_whitespace graphemes out limit = Some (out2, false) /\
      out2 <> out.
Proof. exact idempotence_refuted. Qed.
Print Assumptions C33_idempotence_refuted.

(*     known_shield := the control filter removes some code point of nfkc(input)
                       && nfkc(output) <> output   (decided with the oracle).
       Outside the class: every NFKC failure that goes with a removed control character is excluded,
       and idempotence of untruncated outputs follows from NFKC stability alone.  (That an output
       is NFKC when NO control character was removed is a fact about the Unicode tables -- NFKC
       strings stay NFKC under substring and under the ' ' / '\n' edits -- which the model cannot
       express; the harness checks it on every case and reports it under a different class tag.) *)
Theorem C33_nfkc_outside_known :
  forall nfkc is_control is_whitespace graphemes,
    is_whitespace SP = true -> is_whitespace NL = true -> is_control SP = false ->
    (forall s, concat (graphemes s) = s) -> (forall s, Forall (fun g => g <> []) (graphemes s)) ->
    forall input limit out tr,
      normalize_text nfkc is_control is_whitespace graphemes input limit = Some (out, tr) ->
      known_shield nfkc is_control is_whitespace graphemes input limit = false ->
      (removes_control nfkc is_control input = true -> nfkc out = out) /\
      (nfkc out = out -> tr = false ->
       normalize_text nfkc is_control is_whitespace graphemes out limit = Some (out, false)).
Proof. exact nfkc_outside_known. Qed.
Print Assumptions C33_nfkc_outside_known.

(*     every member of the class fails *)
Theorem C33_shield_class_fails :
  forall nfkc is_control is_whitespace graphemes input limit out tr,
    normalize_text nfkc is_control is_whitespace graphemes input limit = Some (out, tr) ->
    known_shield nfkc is_control is_whitespace graphemes input limit = true ->
    nfkc out <> out /\ removes_control nfkc is_control input = true.
Proof. exact shield_class_fails. Qed.
Print Assumptions C33_shield_class_fails.

(*     when cleaning, trimming and truncation have nothing to do, the output is nfkc(input):
       NFKC-stable and a fixed point as soon as nfkc is idempotent *)
Theorem C33_unedited_output_is_nfkc :
  forall nfkc is_control is_whitespace graphemes,
    is_whitespace SP = true -> is_whitespace NL = true -> is_control SP = false ->
    (forall s, concat (graphemes s) = s) -> (forall s, Forall (fun g => g <> []) (graphemes s)) ->
    forall input limit out,
      (forall s, nfkc (nfkc s) = nfkc s) ->
      normalize_text nfkc is_control is_whitespace graphemes input limit = Some (out, false) ->
      trimmed_of nfkc is_control is_whitespace input = nfkc input ->
      nfkc out = out /\
      normalize_text nfkc is_control is_whitespace graphemes out limit = Some (out, false).
Proof. exact unedited_output_is_nfkc. Qed.
Print Assumptions C33_unedited_output_is_nfkc.

(* ---- non-vacuity: the hypotheses are satisfiable (std's is_control / is_whitespace tables, a
   segmentation that joins U+0301 to the code point before it, an NFKC that composes a + U+0301),
   and concrete non-trivial runs ---- *)
Example C33_hypotheses_satisfiable :
  oracles_ok std_is_control std_is_whitespace toy_graphemes /\ (forall s, toy_nfkc (toy_nfkc s) = toy_nfkc s).
Proof. split; [exact toy_oracles_ok | exact toy_nfkc_idem]. Qed.

(* " Hello\tWorld \u{b} test\r\nnext" with limit 128 (the crate's own unit test):
   "Hello World test\nnext", untruncated, NFKC-stable, and a fixed point *)
Definition sample_in : list cp :=
  [32; 72; 101; 108; 108; 111; 9; 87; 111; 114; 108; 100; 32; 11; 32; 116; 101; 115; 116; 13; 10; 110; 101; 120; 116].
Definition sample_out : list cp :=
  [72; 101; 108; 108; 111; 32; 87; 111; 114; 108; 100; 32; 116; 101; 115; 116; 10; 110; 101; 120; 116].
Example C33_nonvacuous_whole :
  toy_normalize sample_in 128 = Some (sample_out, false) /\
  toy_nfkc sample_out = sample_out /\
  toy_normalize sample_out 128 = Some (sample_out, false).
Proof. vm_compute. repeat split. Qed.

(* "a\u{301}bcd" with limit 3: "\u{e1}b" (3 bytes), truncated; with limit 1: the first grapheme
   alone (2 bytes > 1), truncated; "e\u{301}x" is not composed by the toy NFKC: the 3-byte
   grapheme "e\u{301}" is returned whole for limit 2 *)
Example C33_nonvacuous_truncated :
  toy_normalize [97; 769; 98; 99; 100] 3 = Some ([225; 98], true) /\
  toy_normalize [97; 769; 98; 99; 100] 1 = Some ([225], true) /\
  toy_normalize [101; 769; 120] 2 = Some ([101; 769], true) /\
  truncate_at_grapheme_boundary toy_graphemes [101; 769; 120; 121] 2 = 3 /\
  truncate_at_grapheme_boundary toy_graphemes [101; 769; 120; 121] 4 = 4 /\
  truncate_at_grapheme_boundary toy_graphemes [101; 769; 120; 121] 9 = 5.
Proof. vm_compute. repeat split. Qed.
