(* C40 Bulk-ingestion paths are equivalent to plain puts.
   Model: Model/Bulk.v (begin_batch / end_batch / PutManyOpts as state, ensure_wal_capacity,
   commit_from_records, commit_skip_indexes(_inner), finalize_indexes, rebuild_indexes, Drop / open /
   recover_wal) on top of the frame-table model Model/Store.v; reference: Model/BulkSpec.v (the
   reference table of Model/StoreSpec.v for the documents, with the full indexes of that table);
   proofs: Proofs/BulkProofs.v (reusing Proofs/StoreProofs.v).

   What a reader sees (bview): the exposed frame table (ids, uris, CONTENT TAGS, roles, status, chunk
   parents), the timestamps, the timeline (time index), the documents of the lexical engine, the
   documents of the vector index.  spec_view ds is what plain acknowledged puts of the documents ds
   give.  Oracle inputs (whether a put ended with an automatic checkpoint and how many lex records it
   wrote, whether the log region grew, lex records of a commit) are universally quantified: the
   theorems hold for EVERY timing of them, separately on each path.

   The vector half of the property is REFUTED for commit_skip_indexes + finalize_indexes (known
   finding F-C40-1, class skip-commit-drops-embeddings): commit_skip_indexes_inner drops the
   IngestionDelta returned by apply_records, and with it inserted_embeddings; finalize_indexes calls
   rebuild_indexes(&[], &[]) which rebuilds the vector index from the in-memory index alone. *)
From MV Require Import Base.Prelude Model.Store Model.StoreSpec Model.VecStore Model.Timeline Model.Bulk Model.BulkSpec Proofs.StoreProofs Proofs.BulkProofs.
Local Open Scope N_scope.

(* (1) begin_batch / end_batch, for ALL document lists, ALL PutManyOpts (skip_sync, disable_auto_checkpoint,
   compression_level, wal_pre_size_bytes), both orders of end_batch / commit, and every timing of
   automatic checkpoints and log growth on either path: the batch path shows exactly what plain puts +
   commit show -- frames, content tags, timestamps, timeline, engine documents, vector documents. *)
Theorem C40_batch_equals_plain :
  forall (o : opts) (xs ys : list pdoc) (end_first : bool) (e1 : N) (g1 : option N) (e2 : N) (g2 : option N),
    map pd_doc xs = map pd_doc ys -> forallb doc_ok (map pd_doc xs) = true ->
    bview (bfinal (batch_path o ys end_first e2 g2)) = bview (bfinal (plain_path xs e1 g1)).
Proof. exact batch_equals_plain. Qed.
Print Assumptions C40_batch_equals_plain.

(* (2) more generally: ANY history over put / begin_batch / end_batch / commit / finalize_indexes /
   close+reopen (begin / end / commit / reopen at arbitrary positions, nested or unbalanced), once only
   lex records are pending, shows what plain puts of its documents show ... *)
Theorem C40_history_without_skip_is_plain :
  forall ops : list bop,
    existsb is_skip ops = false -> forallb op_ok ops = true ->
    delta_nonempty (pending (base (bfinal ops))) = false ->
    bview (bfinal ops) = spec_view (docs_of_ops ops).
Proof. exact noskip_view. Qed.
Print Assumptions C40_history_without_skip_is_plain.

(* ... and also after close + reopen (Drop commits what is pending, open reloads the persisted indexes) *)
Theorem C40_history_without_skip_reopened :
  forall (ops : list bop) (e : N),
    existsb is_skip ops = false -> forallb op_ok ops = true ->
    bview (bfinal (ops ++ [BReopen e])) = spec_view (docs_of_ops ops).
Proof. exact noskip_view_reopened. Qed.
Print Assumptions C40_history_without_skip_reopened.

(* (3) commit_skip_indexes ... finalize_indexes, frames / contents / timeline / lexical half: after ANY
   history (any mix of puts, batch markers, commit_skip_indexes, commits, reopens -- in particular puts
   with commit_skip_indexes in between) with no frame record pending, finalize_indexes leaves exactly
   the frame table, timestamps, timeline and engine documents of plain puts.  Partial: the vector
   documents are not in this statement (see (5)). *)
Theorem C40_skip_finalize_equals_plain_partial :
  forall (ops : list bop) (e : N) (g : option N),
    let s := bfinal ops in let ds := docs_of_ops ops in
    delta_nonempty (pending (base s)) = false ->
    let s' := fst (bstep s (BFinalize e g)) in
    view (base s') = ref_table ds /\ finf s' = ref_infos ds /\
    timeline_ids s' = map snd (tix_full (ref_table ds) (ref_infos ds)) /\
    lex (ix s') = lex_full (ref_table ds) (ref_infos ds) /\ Settled s'.
Proof. exact finalize_lexical. Qed.
Print Assumptions C40_skip_finalize_equals_plain_partial.

(* ... and after close + reopen *)
Theorem C40_skip_finalize_reopened_partial :
  forall (ops : list bop) (e : N) (g : option N) (e2 : N),
    let s := bfinal ops in let ds := docs_of_ops ops in
    delta_nonempty (pending (base s)) = false ->
    let s' := fst (bstep (fst (bstep s (BFinalize e g))) (BReopen e2)) in
    view (base s') = ref_table ds /\ finf s' = ref_infos ds /\
    timeline_ids s' = map snd (tix_full (ref_table ds) (ref_infos ds)) /\
    lex (ix s') = lex_full (ref_table ds) (ref_infos ds).
Proof. exact finalize_lexical_reopened. Qed.
Print Assumptions C40_skip_finalize_reopened_partial.

(* (4) the exposed frames never depend on the path at all: for EVERY history over the whole alphabet the
   exposed table is the reference table of its documents (commit_skip_indexes included) *)
Theorem C40_frames_any_history :
  forall ops : list bop, view (base (bfinal ops)) = ref_table (docs_of_ops ops).
Proof. intros ops. exact (J_view _ _ (A_J _ _ (A_final ops))). Qed.
Print Assumptions C40_frames_any_history.

(* (5) vector half: REFUTED.  One document with an embedding, commit_skip_indexes, finalize_indexes:
   the vector index is empty, live and after reopen; plain put + commit holds the document. *)
Definition e1 : emb := [1065353216; 0; 0; 1065353216].   (* 1.0 0.0 0.0 1.0 *)
Definition wdoc : doc := mkDoc None 1000 0 1700000000%Z true [] (Some e1) false.
Definition vec_view (s : bst) : docs := docs_of (vidx (ix s)).

Theorem C40_vector_equivalence_refuted :
  exists (xs : list pdoc) (e : N),
    forallb doc_ok (map pd_doc xs) = true /\
    vec_view (bfinal (skip_path [xs] e None)) <> vec_view (bfinal (plain_path xs e None)) /\
    vec_view (bfinal (skip_path [xs] e None ++ [BReopen 0])) <> vec_view (bfinal (plain_path xs e None ++ [BReopen 0])) /\
    known_class (skip_path [xs] e None) = true.
Proof. exists [(wdoc, None, None)], 1. vm_compute. repeat split; discriminate. Qed.
Print Assumptions C40_vector_equivalence_refuted.

(* (6) outside the known class (the history uses commit_skip_indexes AND has a put with an embedding)
   the vector index is exactly (frame, embedding given to it) in frame order, for every history over
   the whole alphabet *)
Theorem C40_vector_outside_known :
  forall ops : list bop,
    known_class ops = false -> forallb op_ok ops = true ->
    delta_nonempty (pending (base (bfinal ops))) = false ->
    vec_view (bfinal ops) = vec_full (ref_infos (docs_of_ops ops)).
Proof. exact vector_outside_known. Qed.
Print Assumptions C40_vector_outside_known.

(* (7) wal_pre_size_bytes: ensure_wal_capacity never shrinks the log, reaches min_bytes, and when it
   changes the size the new size is the next power of two of min_bytes; shift_data_for_wal_growth +
   adjust_offsets_after_wal_growth keep every frame on its own payload extent *)
Theorem C40_ensure_wal_capacity :
  forall w m, let w' := ensure_wal_capacity w m in w <= w' /\ m <= w' /\ (w' <> w -> w' = next_pow2 m /\ w < m).
Proof. exact ensure_wal_capacity_spec. Qed.
Print Assumptions C40_ensure_wal_capacity.

Theorem C40_shift_keeps_payloads :
  forall ext data_start delta off len,
    0 < off -> Forall (fun x => data_start <= fst (fst x)) ext ->
    owner_at (shift_data data_start delta ext) (if off =? 0 then 0 else off + delta) len = owner_at ext off len.
Proof. exact shift_adjust_owner. Qed.
Print Assumptions C40_shift_keeps_payloads.

(* ---- non-vacuity: three documents (one chunked into 2 frames, one embedded, one instant-indexed, an
   automatic checkpoint in the middle of the plain path, out-of-order timestamps) through the three
   paths; the hypotheses hold; plain and batch show the same view; the skip path differs exactly in the
   vector documents ---- *)
Definition d1 : doc := mkDoc (Some 1) 1000 2 1700000500%Z true [true; false] None false.
Definition d2 : doc := mkDoc None 2000 0 1700000100%Z true [] (Some e1) false.
Definition d3 : doc := mkDoc None 3000 0 1700000100%Z false [] None true.
Definition xs_plain : list pdoc := [(d1, Some 1, None); (d2, None, Some 131072); (d3, None, None)].
Definition xs_batch : list pdoc := [(d1, Some 1, None); (d2, None, None); (d3, Some 1, None)].
Definition o1 : opts := mkOpts true true 1%Z 100000.

Example C40_nonvacuous :
  map pd_doc xs_plain = map pd_doc xs_batch /\ forallb doc_ok (map pd_doc xs_plain) = true /\
  bview (bfinal (plain_path xs_plain 1 None)) = bview (bfinal (batch_path o1 xs_batch false 1 None)) /\
  snd (bview (bfinal (plain_path xs_plain 1 None))) = [(3, e1)] /\
  snd (fst (bview (bfinal (plain_path xs_plain 1 None)))) = [0; 1; 3] /\
  snd (fst (fst (bview (bfinal (plain_path xs_plain 1 None))))) = [3; 4; 0] /\
  wal_size (bat (bfinal (batch_path o1 xs_batch false 1 None))) = 131072 /\
  fst (bview (bfinal (skip_path [[(d1, None, None)]; [(d2, None, None); (d3, None, None)]] 1 None)))
    = fst (bview (bfinal (plain_path xs_plain 1 None))) /\
  snd (bview (bfinal (skip_path [[(d1, None, None)]; [(d2, None, None); (d3, None, None)]] 1 None))) = [] /\
  delta_nonempty (pending (base (bfinal (flat_map (fun xs => put_ops xs ++ [BSkip]) [[(d1, None, None)]; [(d2, None, None); (d3, None, None)]])))) = false /\
  known_class (plain_path xs_plain 1 None) = false /\ known_class (batch_path o1 xs_batch false 1 None) = false.
Proof. vm_compute. repeat split. Qed.
