(* C40 Bulk-ingestion paths are equivalent to plain puts.
   Model: Model/Bulk.v (begin_batch / end_batch / PutManyOpts as state, ensure_wal_capacity,
   commit_from_records (= recover_wal), commit_skip_indexes(_inner) AS REPAIRED by ed861c9,
   finalize_indexes, rebuild_indexes, Drop / open) on top of the frame-table model Model/Store.v;
   reference: Model/BulkSpec.v (the reference table of Model/StoreSpec.v for the documents, with the
   full indexes of that table); proofs: Proofs/BulkProofs.v (reusing Proofs/StoreProofs.v).

   What a reader sees (bview): the exposed frame table (ids, uris, CONTENT TAGS, roles, status, chunk
   parents), the timestamps, the timeline (time index), the documents of the lexical engine, the
   documents of the vector index.  spec_view ds is what plain acknowledged puts of the documents ds
   give.  Oracle inputs (whether a put ended with an automatic checkpoint and how many lex records it
   wrote, whether the log region grew, lex records of a commit / finalize) are universally
   quantified: the theorems hold for EVERY timing of them, separately on each path.  No hypothesis
   on the documents: an empty embedding vector is no embedding (eff_emb, fix 564c799).

   History: before ed861c9 commit_skip_indexes_inner dropped the IngestionDelta and with it the
   embeddings of the batch (finding F-C40-1, now fixed: C40_skip_commit_unfixed_dropped_embeddings).

   Remaining boundary, stated below as a theorem pair: between commit_skip_indexes and the next
   finalize_indexes the indexes of the batch exist IN MEMORY ONLY (the log records are checkpointed,
   the manifests cleared).  Closing -- or crashing -- and reopening the memory inside that window
   loses the embeddings of the batch for good (C40_reopen_inside_window_loses_embeddings); frames,
   contents, timeline and lexical index are still restored by finalize_indexes
   (C40_finalize_restores_lexical_any_history).  The property's paths never reopen inside the window;
   `scan false ops = Some false` says exactly that (and that the history ended outside the window). *)
From MV Require Import Base.Prelude Model.Store Model.StoreSpec Model.VecStore Model.Timeline Model.Bulk Model.BulkSpec Proofs.StoreProofs Proofs.BulkProofs.
Local Open Scope N_scope.

(* (1) LEADING THEOREM.  For ALL document lists: the same documents ingested
     - inside begin_batch / end_batch with ANY PutManyOpts (skip_sync, disable_auto_checkpoint,
       compression_level, wal_pre_size_bytes), end_batch before or after the commit,
     - or in ANY segmentation with commit_skip_indexes after each segment, then finalize_indexes,
   show exactly what plain puts + commit show: frames, content tags, timestamps, timeline, engine
   documents AND vector documents -- for every timing of automatic checkpoints and log growth on each
   path.  No known class. *)
Theorem C40_bulk_equals_plain :
  forall (o : opts) (xs ys : list pdoc) (segs : list (list pdoc)) (end_first : bool)
         (e1 : N) (g1 : option N) (e2 : N) (g2 : option N) (e3 : N) (g3 : option N),
    map pd_doc ys = map pd_doc xs -> map pd_doc (concat segs) = map pd_doc xs ->
    bview (bfinal (batch_path o ys end_first e2 g2)) = bview (bfinal (plain_path xs e1 g1)) /\
    bview (bfinal (skip_path segs e3 g3)) = bview (bfinal (plain_path xs e1 g1)).
Proof. exact three_paths_equal. Qed.
Print Assumptions C40_bulk_equals_plain.

(* (2) ... and this also holds after closing and reopening each of the three memories *)
Theorem C40_bulk_equals_plain_reopened :
  forall (o : opts) (xs ys : list pdoc) (segs : list (list pdoc)) (end_first : bool)
         (e1 : N) (g1 : option N) (e2 : N) (g2 : option N) (e3 : N) (g3 : option N) (r1 r2 r3 : N),
    map pd_doc ys = map pd_doc xs -> map pd_doc (concat segs) = map pd_doc xs ->
    bview (bfinal (batch_path o ys end_first e2 g2 ++ [BReopen r2])) = bview (bfinal (plain_path xs e1 g1 ++ [BReopen r1])) /\
    bview (bfinal (skip_path segs e3 g3 ++ [BReopen r3])) = bview (bfinal (plain_path xs e1 g1 ++ [BReopen r1])).
Proof. exact three_paths_equal_reopened. Qed.
Print Assumptions C40_bulk_equals_plain_reopened.

(* (3) the skip path inside begin_batch / end_batch (end_batch before or after finalize_indexes) *)
Theorem C40_skip_inside_batch_equals_plain :
  forall (o : opts) (segs : list (list pdoc)) (end_first : bool) (e : N) (g : option N),
    bview (bfinal (BBegin o :: skip_body segs ++ (if end_first then [BEnd; BFinalize e g] else [BFinalize e g; BEnd])))
    = spec_view (map pd_doc (concat segs)).
Proof. exact skip_in_batch_view. Qed.
Print Assumptions C40_skip_inside_batch_equals_plain.

(* (4) the general statement behind (1)-(3): ANY history over put / begin_batch / end_batch / commit /
   commit_skip_indexes / finalize_indexes / close+reopen -- markers and commits at arbitrary positions,
   nested or unbalanced -- that never reopens between a commit_skip_indexes and the following
   finalize_indexes and ends outside that window, once only lex records are pending, shows what plain
   puts of its documents show ... *)
Theorem C40_any_history_is_plain :
  forall ops : list bop,
    scan false ops = Some false ->
    delta_nonempty (pending (base (bfinal ops))) = false ->
    bview (bfinal ops) = spec_view (docs_of_ops ops).
Proof. exact bulk_view. Qed.
Print Assumptions C40_any_history_is_plain.

(* ... also after close + reopen, whatever was pending at the close *)
Theorem C40_any_history_reopened :
  forall (ops : list bop) (e : N),
    scan false ops = Some false ->
    bview (bfinal (ops ++ [BReopen e])) = spec_view (docs_of_ops ops).
Proof. exact bulk_view_reopened. Qed.
Print Assumptions C40_any_history_reopened.

(* (5) inside the window too, the IN-MEMORY vector index (what a live search_vec scans) already holds
   every committed embedding: the repair of ed861c9 *)
Theorem C40_vector_index_complete_in_memory :
  forall (ops : list bop) (w : bool),
    scan false ops = Some w -> vec_full (finf (bfinal ops)) = docs_of (vidx (ix (bfinal ops))).
Proof. exact vector_live_any_window. Qed.
Print Assumptions C40_vector_index_complete_in_memory.

(* (6) the exposed frames never depend on the path at all: for EVERY history over the whole alphabet
   (reopen inside the window included) the exposed table is the reference table of its documents *)
Theorem C40_frames_any_history :
  forall ops : list bop, view (base (bfinal ops)) = ref_table (docs_of_ops ops).
Proof. intros ops. exact (J_view _ _ (A_J _ _ (A_final ops))). Qed.
Print Assumptions C40_frames_any_history.

(* (7) and after ANY history with no frame record pending, finalize_indexes restores the frame table,
   timestamps, timeline and engine documents of plain puts, live and after reopen *)
Theorem C40_finalize_restores_lexical_any_history :
  forall (ops : list bop) (e : N) (g : option N),
    let s := bfinal ops in let ds := docs_of_ops ops in
    delta_nonempty (pending (base s)) = false ->
    let s' := fst (bstep s (BFinalize e g)) in
    view (base s') = ref_table ds /\ finf s' = ref_infos ds /\
    timeline_ids s' = map snd (tix_full (ref_table ds) (ref_infos ds)) /\
    lex (ix s') = lex_full (ref_table ds) (ref_infos ds) /\ Settled s'.
Proof. exact finalize_lexical. Qed.
Print Assumptions C40_finalize_restores_lexical_any_history.

Theorem C40_finalize_restores_lexical_reopened :
  forall (ops : list bop) (e : N) (g : option N) (e2 : N),
    let s := bfinal ops in let ds := docs_of_ops ops in
    delta_nonempty (pending (base s)) = false ->
    let s' := fst (bstep (fst (bstep s (BFinalize e g))) (BReopen e2)) in
    view (base s') = ref_table ds /\ finf s' = ref_infos ds /\
    timeline_ids s' = map snd (tix_full (ref_table ds) (ref_infos ds)) /\
    lex (ix s') = lex_full (ref_table ds) (ref_infos ds).
Proof. exact finalize_lexical_reopened. Qed.
Print Assumptions C40_finalize_restores_lexical_reopened.

(* (8) THE BOUNDARY.  One embedded put, commit_skip_indexes, close + reopen, finalize_indexes: the
   frame is there, the vector index is empty, and stays empty.  The hypothesis of (4) is necessary:
   scan says None for this history.  (A process crash in the window behaves like the close: after
   commit_skip_indexes nothing is pending in the log and the manifest holds no data pointer.) *)
Definition e1 : emb := [1065353216; 0; 0; 1065353216].   (* 1.0 0.0 0.0 1.0 *)
Definition wdoc : doc := mkDoc None 1000 0 1700000000%Z true [] (Some e1) false.
Definition vec_view (s : bst) : docs := docs_of (vidx (ix s)).
Definition window_reopen : list bop := [BPut wdoc None None; BSkip; BReopen 0; BFinalize 1 None].

Theorem C40_reopen_inside_window_loses_embeddings :
  scan false window_reopen = None /\
  view (base (bfinal window_reopen)) = ref_table [wdoc] /\
  vec_view (bfinal window_reopen) = [] /\ vec_full (ref_infos [wdoc]) = [(0, e1)] /\
  vec_view (bfinal (window_reopen ++ [BReopen 0])) = [] /\
  (* without the reopen the same history is fine *)
  vec_view (bfinal [BPut wdoc None None; BSkip; BFinalize 1 None]) = [(0, e1)].
Proof. vm_compute. repeat split. Qed.
Print Assumptions C40_reopen_inside_window_loses_embeddings.

(* (9) historical: the skip commit as it was before ed861c9 dropped the embeddings of the batch *)
Theorem C40_skip_commit_unfixed_dropped_embeddings :
  let s := fst (bstep bst0 (BPut wdoc None None)) in
  vec_view (finalize (commit_skip_unfixed s) 1) = [] /\ vec_view (finalize (commit_skip s) 1) = [(0, e1)].
Proof. vm_compute. split; reflexivity. Qed.

(* (10) wal_pre_size_bytes: ensure_wal_capacity never shrinks the log, reaches min_bytes, and when it
   changes the size the new size is the next power of two of min_bytes; shift_data_for_wal_growth +
   adjust_offsets_after_wal_growth keep every frame on its own payload extent *)
Theorem C40_ensure_wal_capacity :
  forall w m, let w' := ensure_wal_capacity w m in w <= w' /\ m <= w' /\ (w' <> w -> w' = next_pow2 m /\ w < m).
Proof. exact ensure_wal_capacity_spec. Qed.
Print Assumptions C40_ensure_wal_capacity.

Theorem C40_shift_keeps_payloads :
  forall ext data_start delta off len,
    0 < off -> Forall (fun x => data_start <= fst (fst x)) ext ->
    owner_at (shift_data data_start delta ext) (if off =? 0 then 0 else off + delta) len = owner_at ext off len.
Proof. exact shift_adjust_owner. Qed.
Print Assumptions C40_shift_keeps_payloads.

(* ---- non-vacuity: four documents (one chunked into 2 frames, one embedded, one instant-indexed, one
   with an EMPTY embedding vector; an automatic checkpoint in the middle of the plain path; ties and
   out-of-order timestamps) through the three paths: the hypotheses hold, all three views are equal and
   are the expected ones ---- *)
Definition d1 : doc := mkDoc (Some 1) 1000 2 1700000500%Z true [true; false] None false.
Definition d2 : doc := mkDoc None 2000 0 1700000100%Z true [] (Some e1) false.
Definition d3 : doc := mkDoc None 3000 0 1700000100%Z false [] None true.
Definition d4 : doc := mkDoc None 4000 0 1700000900%Z true [] (Some []) false.
Definition xs_plain : list pdoc := [(d1, Some 1, None); (d2, None, Some 131072); (d3, None, None); (d4, None, None)].
Definition xs_batch : list pdoc := [(d1, Some 1, None); (d2, None, None); (d3, Some 1, None); (d4, None, None)].
Definition segs_skip : list (list pdoc) := [[(d1, None, None)]; [(d2, None, None); (d3, None, None)]; [(d4, None, None)]].
Definition o1 : opts := mkOpts true true 1%Z 100000.

Example C40_nonvacuous :
  map pd_doc xs_batch = map pd_doc xs_plain /\ map pd_doc (concat segs_skip) = map pd_doc xs_plain /\
  bview (bfinal (batch_path o1 xs_batch false 1 None)) = bview (bfinal (plain_path xs_plain 1 None)) /\
  bview (bfinal (skip_path segs_skip 1 None)) = bview (bfinal (plain_path xs_plain 1 None)) /\
  bview (bfinal (skip_path segs_skip 1 None ++ [BReopen 0])) = bview (bfinal (plain_path xs_plain 1 None)) /\
  snd (bview (bfinal (plain_path xs_plain 1 None))) = [(3, e1)] /\
  snd (fst (bview (bfinal (plain_path xs_plain 1 None)))) = [0; 1; 3; 5] /\
  snd (fst (fst (bview (bfinal (plain_path xs_plain 1 None))))) = [3; 4; 0; 5] /\
  wal_size (bat (bfinal (batch_path o1 xs_batch false 1 None))) = 131072 /\
  scan false (skip_path segs_skip 1 None) = Some false /\ scan false (skip_body segs_skip) = Some true.
Proof. vm_compute. repeat split. Qed.
