(* C14 Vector index membership matches active embedded frames.
   Model: Model/VecStore.v (vector index on top of the frame-table model Model/Store.v);
   reference: Model/VecSpec.v (the embedding each frame was given, next to the reference frame
   table of Model/StoreSpec.v); proofs: Proofs/VecProofs.v.

   Representations.  VecIndexBuilder::finish switches to HNSW only under
   cfg(any(feature = "vec", feature = "hnsw_bench")) (at >= 1000 documents); product
   quantisation (VecIndex::Compressed) is produced only for vec *segments*
   (build_vec_segment_from_embeddings with VectorCompression::Pq96, reachable under feature
   parallel_segments; publish_vec_delta is dead code otherwise).  Default features are
   lex + pdf_extract + simd: the index of toc.indexes.vec has the single representation
   Uncompressed and the theorems below are about it.  Under vec / hnsw_bench, entries() of an
   HNSW index is empty, remove a no-op and embedding_for None, so the first rebuild after the
   index reaches 1000 documents keeps only the new documents and update_frame stops carrying
   embeddings: not modelled here; confirmed on a scratch build with feature hnsw_bench (1000
   embedded puts, commit: vector_count 1000 and frame_embedding(5) = None; one more embedded put,
   commit: vector_count 1 and only frame 1000 is reachable).

   History.  The property was refuted on the code before 83a83e8 / 8099cac by doctor with
   rebuild_vec_index (index emptied, F-C14-1) and by an exit without commit before the vec manifest
   ever reached the file (replay dropped the pending embeddings, F-C14-2).  Both are repaired in
   /repo; the model follows the repaired code and the membership theorem now covers every
   history, those two included, with no known class.  The old behaviour is kept as
   vcommit_unfixed / doctor_vec_unfixed with the lemmas C14_*_unfixed below.

   Boundary.  In the model the index on file always decodes.  An index whose bytes no longer
   decode makes ensure_vec_index fail (silently: vec_index stays None), and the next rebuild --
   any commit with a frame record, vacuum, doctor -- then writes an empty index: every embedding
   is lost.  That is file damage (C20 / C21), outside this property's histories. *)
From MV Require Import Base.Prelude Model.Store Model.StoreSpec Model.VecStore Model.VecSpec Proofs.StoreProofs Proofs.VecProofs.
Local Open Scope N_scope.

(* For EVERY history over put_with_embedding / put_with_chunk_embeddings (any number of chunk
   embeddings, empty vectors included) / plain puts / update_frame with or without an explicit
   embedding and with or without payload / delete / enable_vec / commit / vacuum / close+reopen /
   exit-without-commit + reopen (log replay, also before the first commit) / doctor (all 16 option
   sets, rebuild_vec_index included), for EVERY timing of automatic checkpoints and log growth:
   whenever nothing is pending, the loaded index (what search_vec scans and frame_embedding
   reads; Stats.vector_count is its length) is exactly the list of (frame, embedding given to
   it) over the ACTIVE frames, in frame order -- where "given" is: the embedding passed to the
   put, the i-th chunk embedding for the i-th chunk, the explicit embedding of an update or
   else what the updated frame had been given; an empty vector is no embedding.
   Side condition vrun_ok is C01's (no put asks for the DocumentChunk role, no acknowledged
   update targets a chunk frame): it is what ties frame ids to the reference table. *)
Theorem C14_membership :
  forall ops : list vop,
    let r := vrun vstate0 ops in
    let s := fst (fst r) in let v := snd (fst r) in
    let xs := combine ops (snd r) in
    let R := fst (vref_run ([], []) xs) in let G := snd (vref_run ([], []) xs) in
    vrun_ok [] xs = true -> pending s = [] ->
    committed s = R /\ mem_docs v = expected_docs R G /\
    (venabled v = false -> expected_docs R G = []).
Proof. exact membership. Qed.
Print Assumptions C14_membership.

(* the same as an invariant of every reachable state, pending records included: the index is
   the expected list of the committed table restricted to what was given before the pending
   records, and the pending records carry exactly the remaining given embeddings *)
Theorem C14_invariant :
  forall ops s v R G,
    J s R -> Inv s v G ->
    vrun_ok R (combine ops (snd (vrun (s, v) ops))) = true ->
    J (fst (fst (vrun (s, v) ops))) (fst (vref_run (R, G) (combine ops (snd (vrun (s, v) ops))))) /\
    Inv (fst (fst (vrun (s, v) ops))) (snd (fst (vrun (s, v) ops))) (snd (vref_run (R, G) (combine ops (snd (vrun (s, v) ops))))).
Proof. exact vrun_inv. Qed.
Print Assumptions C14_invariant.

(* findability: in a state meeting the membership equation, frame_embedding (= embedding_for on
   the loaded index) answers the given embedding for an active frame and nothing otherwise *)
Theorem C14_frame_embedding :
  forall R G f, embedding_for (expected_docs R G) f = if frame_is_active R f then embedding_for G f else None.
Proof. exact embedding_for_expected. Qed.
Print Assumptions C14_frame_embedding.

(* update_frame without an explicit embedding carries exactly what the old frame was given *)
Theorem C14_update_carries :
  forall s v G target, Inv s v G -> frame_is_active (committed s) target = true ->
    (if venabled v then embedding_for (mem_docs v) target else None) = embedding_for G target.
Proof. exact carried_is_given. Qed.
Print Assumptions C14_update_carries.

(* doctor with rebuild_vec_index (no vacuum flag): the doctored index is the old index restricted
   to the active frames -- on a reachable quiescent state that is the old index itself *)
Theorem C14_doctor_vec_keeps :
  forall bits frames v, bit bits 2 = true -> bit bits 3 = false ->
    mem_docs (load (doctor_vec bits frames v)) = filter (fun d => frame_is_active frames (fst d)) (mem_docs v) /\
    venabled (load (doctor_vec bits frames v)) = true.
Proof. exact doctor_vec_keeps. Qed.
Print Assumptions C14_doctor_vec_keeps.

(* ---- the former witnesses now meet the property ---- *)
Definition e1 : emb := [1065353216; 1073741824; 1077936128; 1082130432].   (* 1.0 2.0 3.0 4.0 *)
Definition e2 : emb := [1084227584; 0; 2147483648; 1065353216].
Definition e3 : emb := [1088421888; 1088421888; 0; 0].
Definition e4 : emb := [1090519040; 0; 0; 1065353216].

(* F-C14-1: put with embedding, commit, doctor { rebuild_vec_index } *)
Definition witness_doctor : list vop :=
  [VOp (OPut None 1000 0 0 None) (VPut (Some e1) None false); VOp (OCommit 1) VNone; VOp (ODoctor 0) (VDoctor 4)].
(* F-C14-2: first embedded put of a memory, exit without commit, reopen *)
Definition witness_crash : list vop :=
  [VOp (OPut None 1000 0 0 None) (VPut (Some e1) None false); VOp (OCrash 0) VNone].

Example C14_former_witnesses_hold :
  observe_vec (snd (fst (vrun vstate0 witness_doctor))) = (true, true, 1, Some [(0, e1)]) /\
  observe_vec (snd (fst (vrun vstate0 witness_crash))) = (true, true, 1, Some [(0, e1)]).
Proof. vm_compute. split; reflexivity. Qed.

(* ---- historical: the behaviour before the repairs ---- *)
(* before 83a83e8 doctor with rebuild_vec_index left an enabled, empty index whatever was there *)
Theorem C14_doctor_vec_wipes_unfixed :
  forall bits frames v, bit bits 2 = true ->
    mem_docs (load (doctor_vec_unfixed bits frames v)) = [] /\ venabled (load (doctor_vec_unfixed bits frames v)) = true.
Proof. exact doctor_vec_wipes_unfixed. Qed.
Print Assumptions C14_doctor_vec_wipes_unfixed.

(* before 8099cac a commit / replay that ran with vec disabled dropped the embeddings of its records *)
Theorem C14_replay_drops_unfixed :
  forall frames recs v, venabled v = false -> delta_nonempty recs = true ->
    mem_docs (vcommit_unfixed frames recs v) = [] /\ venabled (vcommit_unfixed frames recs v) = false.
Proof. exact vcommit_unfixed_drops. Qed.
Print Assumptions C14_replay_drops_unfixed.

(* ---- non-vacuity: a history with a chunked document (an empty parent vector, one real and one
   empty chunk embedding), an update carrying the embedding, a delete, a crash before the first
   commit (replay keeps the embeddings), an automatic checkpoint, vacuum, doctor with every flag,
   enable_vec and a reopen meets the hypothesis; three frames stay findable ---- *)
Definition demo : list vop :=
  [VOp (OPut None 1000 0 0 None) (VPut (Some e1) None false);
   VOp (OPut None 2000 2 0 None) (VPut (Some []) (Some [e3; []]) false);
   VOp (OCrash 1) VNone;
   VOp (OUpdate 0 (Some 3000) None None) (VUpd None false);
   VOp (ODelete 1 None) (VDel false);
   VOp (OCrash 1) VNone;
   VOp (OPut None 4000 0 0 (Some 1)) (VPut (Some e4) None false);
   VOp (OUpdate 5 None None None) (VUpd (Some []) false);
   VOp (OCommit 0) VVacuum;
   VOp (ODoctor 9) (VDoctor 15);
   VEnableVec;
   VOp (OReopen 0) VNone].

Example C14_nonvacuous :
  let r := vrun vstate0 demo in
  let xs := combine demo (snd r) in
  vrun_ok [] xs = true /\
  pending (fst (fst r)) = [] /\
  mem_docs (snd (fst r)) = [(2, e3); (4, e1)] /\
  expected_docs (fst (vref_run ([], []) xs)) (snd (vref_run ([], []) xs)) = [(2, e3); (4, e1)] /\
  snd (vref_run ([], []) xs) = [(0, e1); (2, e3); (4, e1); (5, e4)].
Proof. vm_compute. repeat split. Qed.
