(* C14 Vector index membership matches active embedded frames.
   Model: Model/VecStore.v (vector index on top of the frame-table model Model/Store.v);
   reference: Model/VecSpec.v (the embedding each frame was given, next to the reference frame
   table of Model/StoreSpec.v); proofs: Proofs/VecProofs.v.

   Representations.  VecIndexBuilder::finish switches to HNSW only under
   cfg(any(feature = "vec", feature = "hnsw_bench")) (at >= 1000 documents); product
   quantisation (VecIndex::Compressed) is produced only for vec *segments*
   (build_vec_segment_from_embeddings with VectorCompression::Pq96, reachable under feature
   parallel_segments; publish_vec_delta is dead code otherwise).  Default features are
   lex + pdf_extract + simd: the index of toc.indexes.vec has the single representation
   Uncompressed and the theorems below are about it.  Under vec / hnsw_bench, entries() of an
   HNSW index is empty, remove a no-op and embedding_for None, so the first rebuild after the
   index reaches 1000 documents keeps only the new documents and update_frame stops carrying
   embeddings: not modelled here; confirmed on a scratch build with feature hnsw_bench (1000 embedded puts,
   commit: vector_count 1000 and frame_embedding(5) = None; one more embedded put, commit:
   vector_count 1 and only frame 1000 is reachable).

   The property as stated ("after any history", "after doctor") is REFUTED by two situations,
   recorded as known findings, and proved outside them:
     F-C14-1 doctor-vec-rebuild         doctor with rebuild_vec_index drops manifest and index and
                                        rebuilds from nothing: every embedding is lost
     F-C14-2 crash-before-vec-manifest  exit without commit while the vec manifest exists only in
                                        memory: replay on open runs with vec disabled and drops
                                        the embeddings of the pending records *)
From MV Require Import Base.Prelude Model.Store Model.StoreSpec Model.VecStore Model.VecSpec Proofs.StoreProofs Proofs.VecProofs.
Local Open Scope N_scope.

(* For EVERY history over put_with_embedding / put_with_chunk_embeddings (any number of chunk
   embeddings) / plain puts / update_frame with or without an explicit embedding and with or
   without payload / delete / enable_vec / commit / vacuum / close+reopen / exit-without-commit
   + reopen (log replay) / doctor (all option sets), for EVERY timing of automatic checkpoints
   and log growth, outside known_class: whenever nothing is pending, the loaded index (what
   search_vec scans and frame_embedding reads; Stats.vector_count is its length) is exactly the
   list of (frame, embedding given to it) over the ACTIVE frames, in frame order -- where
   "given" is: the embedding passed to the put, the i-th chunk embedding for the i-th chunk,
   the explicit embedding of an update or else what the updated frame had been given.
   Side conditions: vrun_ok (C01's: no put asks for the DocumentChunk role, no acknowledged
   update targets a chunk frame) and emb_ok (an embedding has at least one component: the API
   treats an empty vector as "no embedding", and an empty vector stored next to real ones makes
   every later search_vec panic in l2_distance -- reported as an observation). *)
Theorem C14_membership_outside_known :
  forall ops : list vop,
    let r := vrun vstate0 ops in
    let s := fst (fst r) in let v := snd (fst r) in
    let xs := combine ops (snd r) in
    let R := fst (vref_run ([], []) xs) in let G := snd (vref_run ([], []) xs) in
    vrun_ok [] xs = true -> forallb emb_ok ops = true -> known_class ops = false ->
    pending s = [] ->
    committed s = R /\ mem_docs v = expected_docs R G /\
    (venabled v = false -> expected_docs R G = []).
Proof. exact membership_outside_known. Qed.
Print Assumptions C14_membership_outside_known.

(* the same as an invariant of every reachable state, pending records included: the index is
   the expected list of the committed table restricted to what was given before the pending
   records, and the pending records carry exactly the remaining given embeddings *)
Theorem C14_invariant :
  forall ops s v R G,
    J s R -> Inv s v G ->
    vrun_ok R (combine ops (snd (vrun (s, v) ops))) = true ->
    forallb emb_ok ops = true -> known_class_from (s, v) ops = false ->
    J (fst (fst (vrun (s, v) ops))) (fst (vref_run (R, G) (combine ops (snd (vrun (s, v) ops))))) /\
    Inv (fst (fst (vrun (s, v) ops))) (snd (fst (vrun (s, v) ops))) (snd (vref_run (R, G) (combine ops (snd (vrun (s, v) ops))))).
Proof. exact vrun_inv. Qed.
Print Assumptions C14_invariant.

(* findability: in a state meeting the membership equation, frame_embedding (= embedding_for on
   the loaded index) answers the given embedding for an active frame and nothing otherwise *)
Theorem C14_frame_embedding :
  forall R G f, embedding_for (expected_docs R G) f = if frame_is_active R f then embedding_for G f else None.
Proof. exact embedding_for_expected. Qed.
Print Assumptions C14_frame_embedding.

(* update_frame without an explicit embedding carries exactly what the old frame was given *)
Theorem C14_update_carries :
  forall s v G target, Inv s v G -> frame_is_active (committed s) target = true ->
    (if venabled v then embedding_for (mem_docs v) target else None) = embedding_for G target.
Proof. exact carried_is_given. Qed.
Print Assumptions C14_update_carries.

(* ---- the property as stated is refuted ---- *)
Definition e1 : emb := [1065353216; 1073741824; 1077936128; 1082130432].   (* 1.0 2.0 3.0 4.0 *)
Definition e2 : emb := [1084227584; 0; 2147483648; 1065353216].
Definition e3 : emb := [1088421888; 1088421888; 0; 0].
Definition e4 : emb := [1090519040; 0; 0; 1065353216].

Definition final_gap (ops : list vop) : Prop :=
  let r := vrun vstate0 ops in
  let s := fst (fst r) in let v := snd (fst r) in
  let xs := combine ops (snd r) in
  let R := fst (vref_run ([], []) xs) in let G := snd (vref_run ([], []) xs) in
  vrun_ok [] xs = true /\ forallb emb_ok ops = true /\ pending s = [] /\ mem_docs v <> expected_docs R G.

(* F-C14-1: put with embedding, commit, doctor { rebuild_vec_index } : the index is empty *)
Definition witness_doctor : list vop :=
  [VOp (OPut None 1000 0 0 None) (VPut (Some e1) None false); VOp (OCommit 1) VNone; VOp (ODoctor 0) (VDoctor 4)].
(* F-C14-2: first embedded put of a memory, exit without commit, reopen: replay drops the embedding *)
Definition witness_crash : list vop :=
  [VOp (OPut None 1000 0 0 None) (VPut (Some e1) None false); VOp (OCrash 0) VNone].

Theorem C14_membership_refuted : exists ops, final_gap ops.
Proof. exists witness_doctor. unfold final_gap. vm_compute. repeat split; discriminate. Qed.
Print Assumptions C14_membership_refuted.

Theorem C14_membership_refuted_crash : final_gap witness_crash /\ final_gap witness_doctor.
Proof. unfold final_gap. vm_compute. repeat split; discriminate. Qed.

Example C14_witnesses_are_known : known_class witness_doctor = true /\ known_class witness_crash = true.
Proof. vm_compute. split; reflexivity. Qed.

(* doctor with rebuild_vec_index leaves an enabled, empty index whatever was there *)
Theorem C14_doctor_vec_wipes :
  forall bits frames v, bit bits 2 = true ->
    mem_docs (load (doctor_vec bits frames v)) = [] /\ venabled (load (doctor_vec bits frames v)) = true.
Proof. exact doctor_vec_wipes. Qed.
Print Assumptions C14_doctor_vec_wipes.

(* ---- non-vacuity: a history with a chunked document (one of two chunk embeddings given), an
   update carrying the embedding, a delete, a crash whose replay keeps the embeddings (the
   manifest had been committed), an automatic checkpoint, vacuum, doctor { time, lex } and a
   reopen meets every hypothesis; three frames stay findable ---- *)
Definition demo : list vop :=
  [VOp (OPut None 1000 0 0 None) (VPut (Some e1) None false);
   VOp (OPut None 2000 2 0 None) (VPut (Some e2) (Some [e3]) false);
   VOp (OCommit 1) VNone;
   VOp (OUpdate 0 (Some 3000) None None) (VUpd None false);
   VOp (ODelete 1 None) (VDel false);
   VOp (OCrash 1) VNone;
   VOp (OPut None 4000 0 0 (Some 1)) (VPut (Some e4) None false);
   VOp (OCommit 0) VVacuum;
   VOp (ODoctor 9) (VDoctor 3);
   VEnableVec;
   VOp (OReopen 0) VNone].

Example C14_nonvacuous :
  let r := vrun vstate0 demo in
  let xs := combine demo (snd r) in
  vrun_ok [] xs = true /\ forallb emb_ok demo = true /\ known_class demo = false /\
  pending (fst (fst r)) = [] /\
  mem_docs (snd (fst r)) = [(2, e3); (4, e1); (5, e4)] /\
  expected_docs (fst (vref_run ([], []) xs)) (snd (vref_run ([], []) xs)) = [(2, e3); (4, e1); (5, e4)] /\
  snd (vref_run ([], []) xs) = [(0, e1); (1, e2); (2, e3); (4, e1); (5, e4)].
Proof. vm_compute. repeat split. Qed.

(* the two guards are satisfiable separately and each is needed: emb_ok fails on an empty vector *)
Example C14_emb_ok_needed :
  forallb emb_ok [VOp (OPut None 1000 0 0 None) (VPut (Some []) None false)] = false.
Proof. reflexivity. Qed.
