(* C02 Process-crash atomicity (protocol level, partial).
   Model: Model/FsProto.v.  What is proved: the two protocols every acknowledged mutation of
   a healthy memory goes through -- the in-place log append of put/update/delete and the
   staged commit (copy to a staging file, write there, fsync, rename over the memory, fsync
   the directory) -- are crash-atomic for ANY writes and ANY crash point.  What is not:
   byte contents (the log's byte level is Properties/C05), Tantivy/zstd internals, kernel
   behaviour, and the in-place paths (log-region growth, vacuum, replay at open, ticket
   application) which the model classifies as `in place` and which are explored on the real
   code by kill enumeration only. *)
From MV Require Import Base.Prelude Model.FsProto Proofs.FsProtoProofs.

(* For every accepted staged-commit trace (any number and kind of writes to the staging file),
   every split point, and every initial committed content: the file under the memory's name is
   the old image or the new image -- never a mixture. *)
Theorem C02_staged_commit_crash_atomic :
  forall (c : content) (t : list fsop), staged_commit_ok t = true ->
  forall p q, t = p ++ q ->
    after_crash (exec (fs0 c) p) = c \/ after_crash (exec (fs0 c) p) = new_image c t.
Proof. exact staged_commit_crash_atomic. Qed.
Print Assumptions C02_staged_commit_crash_atomic.

(* The log append: a crash leaves the log without the record, with it, or with it and its sentinel. *)
Theorem C02_wal_append_crash_atomic :
  forall (c : content) (r z : wr) (s : fs), synced c s ->
  forall p q, [WriteMem r; FsyncMem; WriteMem z] = p ++ q ->
    after_crash (exec s p) = c \/ after_crash (exec s p) = c ++ [r] \/ after_crash (exec s p) = c ++ [r; z].
Proof. exact wal_append_crash. Qed.
Print Assumptions C02_wal_append_crash_atomic.

(* Non-vacuity: the trace recorded from the implementation for `commit` after two puts
   (shape: fsync, create staging, copy, fsync, 3 writes, fsync, write, fsync, rename, fsync dir). *)
Example C02_nonvacuous :
  let t := [FsyncMem; OpenTmp; CopyToTmp; FsyncTmp; WriteTmp (W 1); WriteTmp (W 2); WriteTmp (W 3); FsyncTmp;
            WriteTmp (W 4); FsyncTmp; RenameTmp; FsyncDir] in
  staged_commit_ok t = true /\ new_image [W 0] t = [W 0; W 1; W 2; W 3; W 4] /\
  after_crash (exec (fs0 [W 0]) (firstn 9 t)) = [W 0] /\ after_crash (exec (fs0 [W 0]) (firstn 11 t)) = [W 0; W 1; W 2; W 3; W 4].
Proof. vm_compute. repeat split. Qed.
