(* C26 Derived data refers to the frame it was derived from.
   "Every memory card extracted during a put, every enrichment record, and every
    enrichment-queue entry created by a put refer to the frame id that document actually has
    once committed.  The text of that frame contains the card's value."

   Model: Model/Derived.v on top of the frame-table model Model/Store.v (C01/C06); proofs:
   Proofs/DerivedProofs.v.  `drun false` is the code AS IT IS (the id attached to derived data
   is `parent_seq as FrameId`, the put's log sequence number), `drun true` the repaired code
   (the id is next_frame_id() read before the log append).

   Vocabulary: Good R d = every card of d has source_frame_id = the id of a Document frame of
   R whose content is the text the card was extracted from, every enrichment record
   (frame id, card ids) lists cards carrying that frame id, every queue entry is the id of the
   Document frame of the put that pushed it.  GoodInst: the same for the temporary frames
   handed to Tantivy by the instant-index path.  view s = the frames the memory exposes
   (= the committed table once a commit / reopen / replay has run).
   drun_ok = the side condition of C01/C06 (no put asks for the internal DocumentChunk role,
   no acknowledged update targets a chunk frame). *)
From MV Require Import Base.Prelude Model.Store Model.StoreSpec Proofs.StoreProofs Model.Derived Proofs.DerivedProofs.
Local Open Scope N_scope.

(* ===================== the code as it is: refuted ===================== *)

(* the recorded experiment: three put+commit pairs (each commit appends one lex-batch record to
   the log), then a put whose text yields two cards *)
Definition fl2 : dflags := mkDF true false 2.
Definition witness : list dop :=
  [DPut None 1000 0 None fl2; DStore (OCommit 1); DPut None 2000 0 None fl2; DStore (OCommit 1);
   DPut None 3000 0 None fl2; DStore (OCommit 1); DPut None 4000 0 None fl2; DStore (OCommit 1)].

(* what the model computes on it: the fourth put returns sequence 7, its document is frame 3,
   its cards (ids 6 and 7) and its enrichment record carry 7 *)
Example C26_asis_witness :
  let r := drun false ds0 witness in
  map (fun o => fst (fst (sout_of o))) (snd r) = [Ok 1; Ok 0; Ok 3; Ok 0; Ok 5; Ok 0; Ok 7; Ok 0] /\
  map (fun f => (f_id f, f_tag f)) (view (st (fst r))) = [(0, 1000); (1, 2000); (2, 3000); (3, 4000)] /\
  map (fun c => (c_id c, c_src c, c_text c)) (cards (cur (fst r))) =
    [(0, 1, 1000); (1, 1, 1000); (2, 3, 2000); (3, 3, 2000); (4, 5, 3000); (5, 5, 3000); (6, 7, 4000); (7, 7, 4000)] /\
  stamps (cur (fst r)) = [(1, [0; 1]); (3, [2; 3]); (5, [4; 5]); (7, [6; 7])].
Proof. vm_compute. repeat split. Qed.

Theorem C26_asis_refuted :
  exists ops : list dop,
    drun_ok [] (combine ops (snd (drun false ds0 ops))) = true /\
    let ds := fst (drun false ds0 ops) in ~ Good (view (st ds)) (cur ds).
Proof.
  exists witness. split; [vm_compute; reflexivity|].
  intros ds (G1 & _).
  assert (Hin : In (mkCard 7 7 4000 1) (cards (cur ds))) by (vm_compute; tauto).
  destruct (G1 _ Hin) as (f & Hn & _). vm_compute in Hn. discriminate.
Qed.
Print Assumptions C26_asis_refuted.

(* the smallest instance: the very first put of a fresh memory returns sequence 1, its
   document is frame 0, its card and its queue entry carry 1 *)
Example C26_asis_first_put :
  let r := drun false ds0 [DPut (Some 1) 1000 0 None (mkDF true true 1)] in
  map (fun c => (c_id c, c_src c)) (cards (cur (fst r))) = [(0, 1)] /\ queue (cur (fst r)) = [(1, 1000)] /\
  map (fun f => (f_id f, f_tag f)) (view (st (fst r))) = [(0, 1000)].
Proof. vm_compute. repeat split. Qed.

(* ===================== the code as it is: outside the known class ===================== *)

(* known_class s = "the next log sequence number differs from next_frame_id()": the class of
   the recorded finding.  A put is outside it (or derives nothing at all) at every step of the
   history  ==>  the property holds as stated. *)
Theorem C26_asis_outside_known :
  forall ops : list dop,
    let ds := fst (drun false ds0 ops) in
    outside_run ds0 ops = true ->
    drun_ok [] (combine ops (snd (drun false ds0 ops))) = true ->
    Good (view (st ds)) (cur ds) /\ Good (view (st ds)) (saved ds) /\ GoodInst (view (st ds)) (inst ds).
Proof. exact asis_outside_known. Qed.
Print Assumptions C26_asis_outside_known.

(* ... because outside the class the code as it is and the repaired code take the same step *)
Theorem C26_asis_step_outside_is_fixed_step :
  forall ds op, put_outside ds op = true -> dstep false ds op = dstep true ds op.
Proof. exact dstep_asis_eq_fixed. Qed.
Print Assumptions C26_asis_step_outside_is_fixed_step.

(* the class is exact, put by put: in any reachable state (J, K: the invariants of C01/C06;
   R = the frames exposed before the put, so the put's document becomes frame |R|) the id the
   code attaches equals the document's id iff the put is outside the class *)
Theorem C26_asis_right_iff_outside :
  forall ds R, Inv ds R -> (der_id false (st ds) = len R <-> known_class (st ds) = false).
Proof.
  intros ds R (HJ & HK & _). unfold der_id, known_class.
  rewrite <- (next_frame_id_is_view_length _ _ HJ HK). split; intros H.
  - rewrite H. rewrite N.eqb_refl. reflexivity.
  - apply Bool.negb_false_iff, N.eqb_eq in H. exact H.
Qed.
Print Assumptions C26_asis_right_iff_outside.

(* the id the code as it is attaches is the value the put returns to its caller *)
Theorem C26_asis_attached_id_is_returned_sequence :
  forall ds uk tag n auto fl,
    fst (fst (sout_of (snd (dstep false ds (DPut uk tag n auto fl))))) = Ok (der_id false (st ds)).
Proof. exact dstep_put_returns_der_id. Qed.
Print Assumptions C26_asis_attached_id_is_returned_sequence.

(* inside the class everything the put derives is wrong: a card, its enrichment record and
   the queue entry carry sequence+1, which is not the id |R| of the put's document *)
Theorem C26_asis_in_class_wrong :
  forall ds R uk tag nchunks auto fl,
    Inv ds R -> known_class (st ds) = true ->
    let ds1 := fst (dstep false ds (DPut uk tag nchunks auto fl)) in
    let doc_id := len R in
    (df_ncards fl <> 0 -> exists c, In c (cards (cur ds1)) /\ c_text c = tag /\ c_src c = seqno (st ds) + 1 /\ c_src c <> doc_id) /\
    (df_ncards fl <> 0 -> exists ids, In (seqno (st ds) + 1, ids) (stamps (cur ds1)) /\ ids <> [] /\ seqno (st ds) + 1 <> doc_id) /\
    (df_queue fl = true -> In (seqno (st ds) + 1, tag) (queue (cur ds1)) /\ seqno (st ds) + 1 <> doc_id).
Proof. exact asis_in_class_wrong. Qed.
Print Assumptions C26_asis_in_class_wrong.

(* which histories are in the class: ALL of them, unless a doctor run reset the log sequence.
   Every insert ever logged consumed a sequence number, so sequence >= next_frame_id and the
   next put's sequence number is strictly above the id its document gets. *)
Theorem C26_asis_every_put_in_class_without_doctor :
  forall ops : list dop,
    forallb doctor_free ops = true -> known_class (st (fst (drun false ds0 ops))) = true.
Proof. exact asis_every_put_in_class. Qed.
Print Assumptions C26_asis_every_put_in_class_without_doctor.

(* non-vacuity of the outside-class theorem: doctor resets the sequence to 0 with two frames
   present; one put deriving nothing and one commit later sequence+1 = next_frame_id = 3, and
   the chunked put with instant index, queue entry and two cards is right (as it is) *)
Definition nod : dflags := mkDF false false 0.
Definition aligned : list dop :=
  [DPut None 1000 0 None nod; DStore (OCommit 1); DPut None 2000 0 None nod; DStore (OCommit 1); DStore (ODoctor 0);
   DPut None 3000 0 None nod; DStore (OCommit 1); DPut (Some 5) 4000 2 None (mkDF true true 2); DStore (OCommit 1)].
Example C26_asis_outside_nonvacuous :
  let r := drun false ds0 aligned in
  outside_run ds0 aligned = true /\
  drun_ok [] (combine aligned (snd r)) = true /\
  map (fun c => (c_id c, c_src c, c_text c)) (cards (cur (fst r))) = [(0, 3, 4000); (1, 3, 4000)] /\
  queue (cur (fst r)) = [(3, 4000)] /\ stamps (cur (fst r)) = [(3, [0; 1])] /\
  map (fun f => (f_id f, f_tag f, f_role f)) (view (st (fst r))) =
    [(0, 1000, 0); (1, 2000, 0); (2, 3000, 0); (3, 4000, 0); (4, 4001, 1); (5, 4002, 1)].
Proof. vm_compute. repeat split. Qed.

(* ===================== the repaired code: all histories ===================== *)

(* capture next_frame_id() before the log append and attach it instead of the sequence number:
   for EVERY history over put (whole / chunked, any derived-data options, any number of cards)
   / update / delete / commit / reopen / exit without commit + replay / doctor / queue drain,
   every timing of automatic checkpoints and every number of extra log records, every card,
   enrichment record, queue entry and instant-index frame -- in memory and in the file's copy
   -- refers to the Document frame of the put it was derived from *)
Theorem C26_fixed_derived_data_refers_to_its_frame :
  forall ops : list dop,
    let ds := fst (drun true ds0 ops) in
    drun_ok [] (combine ops (snd (drun true ds0 ops))) = true ->
    Good (view (st ds)) (cur ds) /\ Good (view (st ds)) (saved ds) /\ GoodInst (view (st ds)) (inst ds).
Proof. exact fixed_derived_refer_to_their_frame. Qed.
Print Assumptions C26_fixed_derived_data_refers_to_its_frame.

(* the same as an invariant of single steps from any state satisfying it *)
Theorem C26_fixed_step :
  forall ds R op, Inv ds R ->
    match sop_of op with
    | Some so => ref_ok R (so, sout_of (snd (dstep true ds op))) = true ->
                 Inv (fst (dstep true ds op)) (ref_step R (so, sout_of (snd (dstep true ds op))))
    | None => Inv (fst (dstep true ds op)) R
    end.
Proof. exact dstep_fixed_inv. Qed.
Print Assumptions C26_fixed_step.

(* "the text of that frame contains the card's value": the rule extractor is an oracle that
   returns values occurring in its input (extract_sub); whatever `contains`, the texts and the
   extractor are, a card of a Good state has its value in the text of the frame it names *)
Theorem C26_card_value_in_frame_text :
  forall (text value : Type) (contains : text -> value -> Prop) (text_of : N -> text) (extract : text -> list value),
    (forall t v, In v (extract t) -> contains t v) ->
    forall R d c v, Good R d -> In c (cards d) -> card_value text value text_of extract c = Some v ->
      exists f, nth_error R (N.to_nat (c_src c)) = Some f /\ f_id f = c_src c /\ contains (frame_text text text_of f) v.
Proof. intros. eapply good_card_text; eauto. Qed.
Print Assumptions C26_card_value_in_frame_text.

(* non-vacuity: the witness history under the repaired code; the hypothesis of the text clause
   is met by the extractor "the text itself" with `contains` = equality *)
Example C26_fixed_nonvacuous :
  let r := drun true ds0 (witness ++ [DPut (Some 9) 5000 3 (Some 1) (mkDF true true 1); DStore (OCrash 0); DObserve]) in
  drun_ok [] (combine (witness ++ [DPut (Some 9) 5000 3 (Some 1) (mkDF true true 1); DStore (OCrash 0); DObserve]) (snd r)) = true /\
  map (fun c => (c_id c, c_src c, c_text c)) (cards (cur (fst r))) =
    [(0, 0, 1000); (1, 0, 1000); (2, 1, 2000); (3, 1, 2000); (4, 2, 3000); (5, 2, 3000); (6, 3, 4000); (7, 3, 4000)] /\
  queue (cur (fst r)) = [(4, 5000)] /\
  map (fun f => (f_id f, f_tag f)) (view (st (fst r))) =
    [(0, 1000); (1, 2000); (2, 3000); (3, 4000); (4, 5000); (5, 5001); (6, 5002); (7, 5003)].
Proof. vm_compute. repeat split. Qed.

Example C26_text_clause_hypothesis_satisfiable :
  forall t v, In v ((fun t : N => [t]) t) -> (fun (t v : N) => t = v) t v.
Proof. intros t v [H|[]]. exact H. Qed.
