(* C15 Timeline is complete, chronological and correctly filtered.
   Statements only; proofs in Proofs/TimelineSort.v and Proofs/TimelineProofs.v.
   Model: Model/Timeline.v (src/memvid/timeline.rs build_timeline, the time-index part of
   rebuild_indexes in src/memvid/mutation.rs, src/io/time_index.rs append_track/read_track).

   Eligibility, read from the code: a frame is a timeline entry iff it is Active and its role
   is Document (rebuild_indexes puts exactly those into the time index) or ExtractedImage
   (build_timeline adds exactly those); DocumentChunk frames never are.

   Part A is about the code AS IT IS: the property is refuted (F-C15-1) and proved outside
   the known class.  Part B is about the code with the one-line repair (build_timeline_fixed):
   the full property for every history and every query, no side condition. *)
From MV Require Import Base.Prelude Model.Timeline Proofs.TimelineSort Proofs.TimelineProofs.
From Coq Require Import Sorting.Sorted Sorting.Permutation.

(* an output row: frame id, timestamp *)
Definition r (id : N) (ts : Z) : N * Z := (id, ts).

(* ================================================================== Part A: as it is *)

(* refuted by the faithful model: a Document (ts 100), commit, then an ExtractedImage
   (ts 50) and a Document (ts 10), commit: the image (id 1) comes last *)
Theorem C15_timeline_refuted :
  exists (ops : list top) (q : tquery),
    let s := trun true ops in
    build_timeline (ts_frames s) (ts_index s) q <> Ok (timeline_spec (ts_frames s) q).
Proof.
  exists [TPut 100 0 0; TCommit; TPut 50 2 0; TPut 10 0 0; TCommit], q_all.
  vm_compute. intros H; discriminate H.
Qed.
Print Assumptions C15_timeline_refuted.

Example C15_refutation_witness_values :
  let s := trun true [TPut 100 0 0; TCommit; TPut 50 2 0; TPut 10 0 0; TCommit] in
  build_timeline (ts_frames s) (ts_index s) q_all = Ok [r 2 10; r 0 100; r 1 50] /\
  timeline_spec (ts_frames s) q_all = [r 2 10; r 1 50; r 0 100] /\
  known_class (ts_frames s) = true /\ ts_index s <> None.
Proof. vm_compute. repeat split. discriminate. Qed.

(* outside the known class (the list "sorted index ++ active extracted images in id order"
   is in (timestamp, id) order) the code as it is meets the specification, for every
   history -- puts of any role with or without chunks, updates, deletes, commits, reopen,
   doctor -- and every query *)
Theorem C15_timeline_outside_known :
  forall (engines : bool) (ops : list top) (q : tquery),
    let s := trun engines ops in
    known_class (ts_frames s) = false ->
    build_timeline (ts_frames s) (ts_index s) q = Ok (timeline_spec (ts_frames s) q).
Proof. exact asis_reachable. Qed.
Print Assumptions C15_timeline_outside_known.

(* the class is exact: inside it the unrestricted query always deviates *)
Theorem C15_known_class_exact :
  forall (engines : bool) (ops : list top),
    let s := trun engines ops in
    ts_index s <> None ->
    known_class (ts_frames s) = true ->
    build_timeline (ts_frames s) (ts_index s) q_all <> Ok (timeline_spec (ts_frames s) q_all).
Proof. exact known_class_exact_reachable. Qed.
Print Assumptions C15_known_class_exact.

(* in particular the property holds as it is for every memory without active extracted
   images (any history whose table has none) *)
Theorem C15_timeline_without_images :
  forall (engines : bool) (ops : list top) (q : tquery),
    let s := trun engines ops in
    (forall f, In f (ts_frames s) -> active f && is_image f = false) ->
    build_timeline (ts_frames s) (ts_index s) q = Ok (timeline_spec (ts_frames s) q).
Proof. exact without_images_reachable. Qed.
Print Assumptions C15_timeline_without_images.

(* the class in plain terms (sufficient condition for being outside it): every active
   extracted image is at or after every active document in (timestamp, id) order, and the
   images' timestamps do not decrease with their ids *)
Theorem C15_outside_known_sufficient :
  forall frames, dense frames ->
    (forall d i, In d frames -> In i frames -> indexed_frame d = true -> image_frame i = true ->
                 entry_leb (entry_of d) (entry_of i) = true) ->
    (forall i j, In i frames -> In j frames -> image_frame i = true -> image_frame j = true ->
                 (tf_id i < tf_id j)%N -> (tf_ts i <= tf_ts j)%Z) ->
    known_class frames = false.
Proof. exact outside_known_sufficient. Qed.
Print Assumptions C15_outside_known_sufficient.

(* non-vacuity of the side condition: histories WITH extracted images outside the class *)
Example C15_outside_known_nonvacuous :
  let s := trun true [TPut 10 0 0; TPut 10 2 0; TPut 5 0 2; TCommit; TUpdate 0 (Some 7%Z) 0; TDelete 2; TPut 11 2 0; TReopen] in
  known_class (ts_frames s) = false /\
  build_timeline (ts_frames s) (ts_index s) q_all = Ok [r 5 7; r 1 10; r 6 11].
Proof. vm_compute. split; reflexivity. Qed.

(* ================================================================== Part B: repaired *)

(* (B1) every history, every query: the repaired build_timeline returns exactly
   limit/reverse/filter of the eligible frames sorted by (timestamp, id) *)
Theorem C15_fixed_timeline_is_spec :
  forall (engines : bool) (ops : list top) (q : tquery),
    let s := trun engines ops in
    build_timeline_fixed (ts_frames s) (ts_index s) q = Ok (timeline_spec (ts_frames s) q).
Proof. exact fixed_reachable. Qed.
Print Assumptions C15_fixed_timeline_is_spec.

(* (B1') the same for ANY frame table with ids equal to positions (C06) whose time index is
   the one rebuild_indexes writes for it -- not only tables reachable by the op language *)
Theorem C15_fixed_timeline_any_table :
  forall (frames : list tframe) (q : tquery),
    dense frames ->
    build_timeline_fixed frames (Some (rebuild_time_index frames)) q = Ok (timeline_spec frames q).
Proof. exact (fun frames q H => fixed_eq frames q H). Qed.
Print Assumptions C15_fixed_timeline_any_table.

(* every reachable table is dense, so the hypothesis of B1' and B2-B4 is met *)
Theorem C15_reachable_dense :
  forall engines ops, dense (ts_frames (trun engines ops)).
Proof. exact reachable_dense. Qed.
Print Assumptions C15_reachable_dense.

(* (B2) chronological: ordered by (timestamp, frame id); exactly the reverse order when
   `reverse` is set -- for every query, limited or not *)
Theorem C15_spec_chronological :
  forall frames q,
    if q_reverse q then StronglySorted (fun a b => out_le b a) (timeline_spec frames q)
    else StronglySorted out_le (timeline_spec frames q).
Proof. exact spec_chronological. Qed.
Print Assumptions C15_spec_chronological.

(* (B3) complete, exactly once, inclusive bounds: without a limit, (id, ts) is returned iff
   some eligible frame has that id and timestamp and since <= ts <= until (both inclusive);
   and no frame id is returned twice (with or without limit) *)
Theorem C15_spec_exactly_once_within_inclusive_bounds :
  forall frames, dense frames ->
    (forall since until rv id ts,
        In (id, ts) (timeline_spec frames (mkQ None since until rv)) <->
        (exists f, In f frames /\ eligible f = true /\ tf_id f = id /\ tf_ts f = ts) /\
        (forall s, since = Some s -> (s <= ts)%Z) /\ (forall u, until = Some u -> (ts <= u)%Z)) /\
    (forall q, NoDup (map fst (timeline_spec frames q))).
Proof. exact spec_exactly_once. Qed.
Print Assumptions C15_spec_exactly_once_within_inclusive_bounds.

(* (B4) a limit returns the first min(k, n) entries of the unlimited result; reverse without
   limit is the exact reversal of the forward result *)
Theorem C15_spec_limit_is_prefix_and_reverse_is_reversal :
  forall frames since until,
    (forall k rv,
        timeline_spec frames (mkQ (Some k) since until rv) =
        firstn (N.to_nat k) (timeline_spec frames (mkQ None since until rv))) /\
    timeline_spec frames (mkQ None since until true) = rev (timeline_spec frames (mkQ None since until false)).
Proof. exact spec_limit_and_reverse. Qed.
Print Assumptions C15_spec_limit_is_prefix_and_reverse_is_reversal.

(* (B5) the sorting model does not depend on the algorithm: any function returning a sorted
   permutation (Rust's stable sort_by_key on the key (timestamp, frame_id), which is the
   whole entry) equals the insertion sort of the model *)
Theorem C15_sort_model_is_canonical :
  forall srt : list tentry -> list tentry,
    (forall l, esorted (srt l)) -> (forall l, Permutation (srt l) l) ->
    forall l, srt l = sort_entries l.
Proof. exact sort_model_canonical. Qed.
Print Assumptions C15_sort_model_is_canonical.

(* (B6) the time index track, entry level: what append_track writes is read back by
   read_track as the sorted entry list; read_track accepts exactly the tracks in
   (timestamp, id) order (equal neighbours allowed) and returns them unchanged *)
Theorem C15_track_roundtrip :
  (forall es, read_track (append_track es) = Ok (sort_entries es)) /\
  (forall track, read_track track = Ok track <-> esorted track) /\
  (forall track out, read_track track = Ok out -> out = track /\ esorted track).
Proof. exact track_facts. Qed.
Print Assumptions C15_track_roundtrip.

(* non-vacuity: the refutation witness under the repaired code; ties, negative and extreme
   timestamps, chunked documents, update, delete, doctor; since/until hit a tie exactly *)
Example C15_fixed_nonvacuous :
  let ops := [TPut 100 0 0; TCommit; TPut 50 2 0; TPut 10 0 0; TCommit;
              TPut (-9223372036854775808) 0 3; TPut 9223372036854775807 2 0; TPut 50 0 0; TPut 50 2 0;
              TDoctor true; TUpdate 0 None 2; TDelete 3; TReopen] in
  let s := trun false ops in
  dense (ts_frames s) /\
  build_timeline_fixed (ts_frames s) (ts_index s) q_all
    = Ok [r 2 10; r 1 50; r 8 50; r 9 50; r 10 100; r 7 9223372036854775807] /\
  build_timeline_fixed (ts_frames s) (ts_index s) (mkQ (Some 2%N) (Some 50%Z) (Some 50%Z) true)
    = Ok [r 9 50; r 8 50] /\
  build_timeline (ts_frames s) (ts_index s) q_all
    = Ok [r 2 10; r 8 50; r 1 50; r 7 9223372036854775807; r 9 50; r 10 100].
Proof. split; [apply reachable_dense|]. vm_compute. repeat split. Qed.
