(* C32 Query language is total and means what it says.
   Statements only; proofs live in Proofs/QueryProofs.v.  The model (Model/Query.v) follows
   src/search/parser.rs and src/search/mod.rs; alnum = char::is_alphanumeric and
   parse_date = parse_date_value are arbitrary functions in every theorem.
   parse_query returns (Ok AST | Err kind | Panic, stack depth in parser frames). *)
From Coq Require Import String Ascii.
From MV Require Import Base.Prelude Model.Query Proofs.QueryProofs.

(* ---------------------------------------------------------------- (a) totality *)

(* (1) The lexer, given fuel = length of the text, never runs out of fuel: Ok tokens or an
       InvalidQuery kind, for every text. *)
Theorem C32_lexer_total :
  forall (q : str), no_panic (tokenize (length q) q).
Proof. intros q. apply tokenize_no_panic. apply le_n. Qed.
Print Assumptions C32_lexer_total.

(* (2) Lexer + parser: for EVERY text (unbalanced, nested, arbitrary code points) the result
       is Ok or Err (an InvalidQuery kind), never Panic / out of fuel, with the fuel that
       parse_query itself computes: length q for the lexer, 4*tokens+4 for the parser. *)
Theorem C32_parse_total :
  forall (alnum : N -> bool) (parse_date : str -> option Z) (q : str),
    no_panic (fst (parse_query alnum parse_date q)).
Proof. exact parse_query_total. Qed.
Print Assumptions C32_parse_total.

(* (3) That fuel is linear in the length of the text. *)
Theorem C32_fuel_linear :
  forall (q : str) (ts : list token),
    tokenize (length q) q = Ok ts -> parser_fuel ts <= 4 * length q + 4.
Proof. exact (parser_fuel_linear (fun _ => None)). Qed.
Print Assumptions C32_fuel_linear.

(* ---------------------------------------------------------------- stack depth *)

(* (4) The number of nested parser frames is also at most 4 per '(' token + 1 per NOT token + 4. *)
Theorem C32_depth_bound :
  forall alnum parse_date (q : str),
    snd (parse_query alnum parse_date q) <= 4 * nest_weight q + 4.
Proof. exact parse_query_depth. Qed.
Print Assumptions C32_depth_bound.

(* (5) The depth limit (commit 932224c: MAX_QUERY_DEPTH = 64 nested '(' / NOT, then
       InvalidQuery "query nesting too deep") makes the full statement true: for EVERY text
       the result is Ok or an InvalidQuery kind, never Panic / out of fuel, AND the parser
       never has more than 4*MAX_QUERY_DEPTH+4 = 260 nested frames on the stack.
       (Before the fix the depth was 4n+4 on n pairs of parentheses, unbounded; 20000 pairs
       aborted the process.) *)
Theorem C32_parse_total_stack_bounded :
  forall (alnum : N -> bool) (parse_date : str -> option Z) (q : str),
    no_panic (fst (parse_query alnum parse_date q)) /\
    snd (parse_query alnum parse_date q) <= 4 * MAX_QUERY_DEPTH + 4.
Proof. exact parse_query_total_bounded. Qed.
Print Assumptions C32_parse_total_stack_bounded.

(* (6) The model's limit is the constant in src/search/parser.rs now (regenerated each run). *)
Theorem C32_depth_limit_tied :
  N.of_nat MAX_QUERY_DEPTH = MV.Gen.Consts.MAX_QUERY_DEPTH /\ 4 * MAX_QUERY_DEPTH + 4 = 260.
Proof. split; [exact max_query_depth_tied | reflexivity]. Qed.
Print Assumptions C32_depth_limit_tied.

(* the boundary, computed: 64 levels are accepted and reach the bound, 65 are rejected *)
Definition asc (c : N) : bool :=
  ((48 <=? c) && (c <=? 57) || (65 <=? c) && (c <=? 90) || (97 <=? c) && (c <=? 122))%N.
Definition nodate (_ : str) : option Z := None.
Definition not_chain (n : nat) : str := concat (repeat [78; 79; 84; 32]%N n) ++ [120%N].
Example C32_depth_limit_boundary :
  parse_query asc nodate (nested_query 64) = (Ok (ETerm (TWord [120%N])), 260) /\
  parse_query asc nodate (nested_query 65) = (Err E_TOO_DEEP, 260) /\
  parse_query asc nodate (nested_query 2000) = (Err E_TOO_DEEP, 260) /\
  snd (parse_query asc nodate (not_chain 64)) = 68 /\
  parse_query asc nodate (not_chain 65) = (Err E_TOO_DEEP, 67).
Proof. vm_compute. repeat split; reflexivity. Qed.

(* ---------------------------------------------------------------- (b) meaning *)

(* (7) The evaluator decides the reference semantics: OR = some operand, AND = every operand,
       NOT = negation, word/phrase = the ASCII-lower-cased text is a substring of the content,
       uri/track/tag/label = equality ignoring ASCII case, scope = prefix of the uri,
       date range = some candidate timestamp inside the inclusive range. *)
Theorem C32_eval_is_reference_semantics :
  forall parse_date (e : expr) (d : doc),
    eval parse_date e d = true <-> sem parse_date e d.
Proof. exact eval_sem. Qed.
Print Assumptions C32_eval_is_reference_semantics.

(* (8) Precedence, token level: print any well-formed expression with parentheses only where
       NOT > AND > OR requires them (AND written or implicit); the parser consumes all the
       tokens and returns an expression with the same match decision on every document.
       nd 0 e = the nesting of parentheses and NOTs in the printed form; it must fit under
       the depth limit (otherwise the parser rejects the text, by design). *)
Theorem C32_precedence_tokens :
  forall alnum parse_date (explicit : bool) (e : expr),
    wf alnum e -> nd 0 e <= MAX_QUERY_DEPTH ->
    exists e' depth,
      parse_expression alnum parse_date (parser_fuel (print_tokens explicit e)) 0 (print_tokens explicit e)
        = (Ok (e', []), depth) /\
      forall d, eval parse_date e' d = eval parse_date e d.
Proof. exact parse_print_tokens. Qed.
Print Assumptions C32_precedence_tokens.

(* (9) The same for text, through the lexer: eval (parse (print e)) d = sem e d.
       Hypotheses: operand lists non-empty and every term printable (wf: its token is
       turned back into the same term), and every term's text survives the lexer (terms_ok:
       no quote inside, words without whitespace/parentheses/colon and not a keyword).
       Date ranges are not printable (their text goes through the date oracle): _partial
       in that respect only. *)
Theorem C32_print_parse_sem_partial :
  forall alnum parse_date (explicit : bool) (e : expr),
    wf alnum e -> terms_ok e = true -> nd 0 e <= MAX_QUERY_DEPTH ->
    exists e' depth,
      parse_query alnum parse_date (print explicit e) = (Ok e', depth) /\
      forall d, eval parse_date e' d = true <-> sem parse_date e d.
Proof. exact print_parse_sem. Qed.
Print Assumptions C32_print_parse_sem_partial.

(* (10) A sufficient condition for a word to be printable: alphanumeric at both ends,
        no upper-case ASCII, no '*' or '?'. *)
Theorem C32_plain_words_printable :
  forall alnum (w : str), plain_word alnum w = true -> from_word alnum w = TWord w.
Proof. exact plain_word_from_word. Qed.
Print Assumptions C32_plain_words_printable.

(* ---------------------------------------------------------------- non-vacuity *)
Fixpoint cp (s : string) : str :=
  match s with EmptyString => [] | String a r => N_of_ascii a :: cp r end.

(* alpha OR (beta AND NOT (gamma OR "two words") AND tag:"red") OR NOT mach*ne *)
Definition sample : expr :=
  EOr [ETerm (TWord (cp "alpha"));
       EAnd [ETerm (TWord (cp "beta"));
             ENot (EOr [ETerm (TWord (cp "gamma")); ETerm (TPhrase (cp "two words"))]);
             ETerm (TTag (cp "red"))];
       ENot (ETerm (TWild (cp "mach*ne")))].

Example C32_sample_wf : wf asc sample /\ terms_ok sample = true /\ nd 0 sample = 2.
Proof. split; [|split; reflexivity]. repeat (constructor; try discriminate); vm_compute; reflexivity. Qed.

Example C32_sample_text :
  print true sample = cp "alpha OR beta AND NOT ( gamma OR ""two words"" ) AND tag:""red"" OR NOT mach*ne " /\
  print false sample = cp "alpha OR beta NOT ( gamma OR ""two words"" ) tag:""red"" OR NOT mach*ne ".
Proof. vm_compute. split; reflexivity. Qed.

Example C32_sample_roundtrip :
  fst (parse_query asc nodate (print false sample)) = Ok sample /\
  fst (parse_query asc nodate (print true sample)) = Ok sample.
Proof. vm_compute. split; reflexivity. Qed.

(* precedence on raw text: NOT binds tighter than AND, AND (written or implicit) tighter than OR *)
Example C32_precedence_example :
  fst (parse_query asc nodate (cp "a OR b AND NOT c d")) =
  Ok (EOr [ETerm (TWord (cp "a"));
           EAnd [ETerm (TWord (cp "b")); ENot (ETerm (TWord (cp "c"))); ETerm (TWord (cp "d"))]]).
Proof. vm_compute. reflexivity. Qed.

(* totality on malformed text: error kinds, not panics; and a word satisfying (10) *)
Example C32_malformed_examples :
  fst (parse_query asc nodate (cp "((a")) = Err E_EXPECTED_RPAREN /\
  fst (parse_query asc nodate (cp "a AND")) = Err E_UNEXPECTED_END /\
  fst (parse_query asc nodate (cp "tag:""x")) = Err E_UNTERMINATED_QUOTE /\
  fst (parse_query asc nodate (cp ") a")) = Err E_UNEXPECTED_TOKEN /\
  plain_word asc (cp "test-word") = true /\
  nest_weight (cp "((a) NOT b)") = 3.
Proof. vm_compute. repeat split; reflexivity. Qed.

(* a document on which the sample matches through its second disjunct only *)
Definition sample_doc : doc :=
  mkDoc (Some (cp "mv2://docs/a")) None [cp "Red"] [] 0%Z [] (cp "beta delta machine").
Example C32_sample_eval :
  eval nodate sample sample_doc = true /\
  eval nodate (EOr [ETerm (TWord (cp "alpha")); ENot (ETerm (TWild (cp "mach*ne")))]) sample_doc = true /\
  eval nodate (ETerm (TWord (cp "gamma"))) sample_doc = false.
Proof. vm_compute. repeat split; reflexivity. Qed.
