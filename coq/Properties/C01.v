(* C01 Acknowledged operations are never lost (crash-free histories).
   Model: Model/Store.v (write path over the log's specification, Properties/C05);
   reference model: Model/StoreSpec.v; proofs: Proofs/StoreProofs.v. *)
From MV Require Import Base.Prelude Model.Store Model.StoreSpec Proofs.StoreProofs.
Local Open Scope N_scope.

(* For EVERY history over put (whole / chunked, any sizes) / update (with or without payload)
   / delete / commit / close+reopen / exit-without-commit+reopen (log replay), and for EVERY
   timing of automatic checkpoints (the `auto` oracle of each mutating op) and every number
   of log records a commit adds itself (`extra`):
   the frames the memory exposes (committed table with the pending log records applied) are
   exactly the reference table obtained by applying the acknowledged calls one after the other
   -- same ids, URIs, status, content tags, supersession links, chunk parents, order -- and
   whenever nothing is pending (after commit, reopen, replay, automatic checkpoint) the
   committed table itself equals it.
   Side condition run_ok: a put does not ask for the internal DocumentChunk role and an
   acknowledged update does not target a DocumentChunk frame (both excluded from the
   generator too; an update of a chunk frame is re-parented by apply_records' second pass,
   which the reference model does not describe): in that sense this theorem is *partial*. *)
Theorem C01_view_is_reference_partial :
  forall ops : list sop,
    let s := fst (srun store0 ops) in
    let xs := combine ops (snd (srun store0 ops)) in
    run_ok [] xs = true ->
    view s = ref_run [] xs /\ (pending s = [] -> committed s = ref_run [] xs).
Proof. intros ops s xs Hok. destruct (reachable_facts ops Hok) as (H1 & _ & _ & H4). split; assumption. Qed.
Print Assumptions C01_view_is_reference_partial.

(* the same from any state satisfying the invariant: one step of the model is one step of
   the reference model, whatever happened before *)
Theorem C01_step_refines :
  forall s R op, J s R ->
    let '(s1, o) := sstep s op in ref_ok R (op, o) = true -> J s1 (ref_step R (op, o)).
Proof. exact sstep_refines. Qed.
Print Assumptions C01_step_refines.

(* commit placement is invisible: committing (explicitly, automatically, on drop, by replay)
   never changes the exposed frames *)
Theorem C01_commit_invisible :
  forall s R extra, J s R -> view (do_commit s extra) = view s /\ committed (do_commit s extra) = view s.
Proof.
  intros s R extra HJ. rewrite (J_view _ _ HJ). split; [apply J_view, J_commit; assumption|].
  unfold do_commit. cbn [committed]. apply J_view. assumption.
Qed.
Print Assumptions C01_commit_invisible.

(* Non-vacuity: a history with a chunked document, updates with and without payload, a delete,
   an automatic checkpoint, a crash with replay and a reopen; the side condition holds and the
   final table is the expected one. *)
Definition demo : list sop :=
  [OPut (Some 1) 1000 0 0 None; OPut None 2000 2 0 (Some 1); OUpdate 0 (Some 3000) None None; OCrash 1;
   OUpdate 1 None (Some 7) None; ODelete 9 None; OPut None 4000 0 0 None; OReopen 1; ODelete 0 None; ODelete 5 None; OCommit 1].
Example C01_nonvacuous :
  run_ok [] (combine demo (snd (srun store0 demo))) = true /\
  map (fun f => (f_id f, f_status f, f_tag f, f_superseded_by f, f_parent f)) (view (fst (srun store0 demo))) =
    [(0, 1, 1000, Some 4, None); (1, 1, 2000, Some 5, None); (2, 0, 2001, None, Some 1); (3, 0, 2002, None, Some 1);
     (4, 0, 3000, None, None); (5, 2, 2000, None, None); (6, 0, 4000, None, None)] /\
  map (fun o => fst (fst o)) (snd (srun store0 demo)) =
    [Ok 1; Ok 2; Ok 6; Ok 0; Ok 8; Err 1; Ok 9; Ok 0; Err 2; Ok 11; Ok 0].
Proof. vm_compute. repeat split. Qed.
