(* C01 placeholder: statements follow once Proofs/StoreProofs.v is in. *)
From MV Require Import Base.Prelude Model.Store.
