(* C31 Footer scan finds the most recent valid commit.
   Statements only; proofs live in Proofs/FooterProofs.v. *)
From MV Require Import Base.Prelude Model.Footer Proofs.FooterProofs.

(* For ANY hash function H and ANY byte string b: *)

(* (1) the scan returns a slice exactly when it is the slice of the valid footer
       (56 bytes in range, magic, 0 < toc_len <= position, H(toc) = toc_hash)
       at the greatest position. *)
Theorem C31_scan_returns_last_valid :
  forall (H : bytes -> bytes) (b : bytes) (s : footer_slice),
    find_last_valid_footer H b = Some s <->
    exists pos, valid_at H b pos = true /\ slice_at b pos = Some s /\
                forall q, valid_at H b q = true -> q <= pos.
Proof. exact find_last_valid_footer_some. Qed.
Print Assumptions C31_scan_returns_last_valid.

(* (2) it returns nothing exactly when no position holds a valid footer. *)
Theorem C31_scan_none_iff_no_valid :
  forall (H : bytes -> bytes) (b : bytes),
    find_last_valid_footer H b = None <-> forall q, valid_at H b q = false.
Proof. exact find_last_valid_footer_none. Qed.
Print Assumptions C31_scan_none_iff_no_valid.

(* (3) the TOC bytes returned are exactly the bytes that footer describes. *)
Theorem C31_toc_bytes_are_described :
  forall (b : bytes) (pos : nat) (s : footer_slice),
    slice_at b pos = Some s ->
    fs_footer_offset s = pos /\
    footer_decode (slice b pos FOOTER_SIZE) = Some (fs_footer s) /\
    fs_toc_offset s = pos - N.to_nat (toc_len (fs_footer s)) /\
    fs_toc_bytes s = slice b (fs_toc_offset s) (N.to_nat (toc_len (fs_footer s))).
Proof. exact slice_at_describes. Qed.
Print Assumptions C31_toc_bytes_are_described.

(* (4) footer codec round trip (also used by C30). *)
Theorem C31_footer_roundtrip :
  forall f, (toc_len f < 2 ^ 64)%N -> (generation f < 2 ^ 64)%N -> length (toc_hash f) = 32 ->
            footer_decode (footer_encode f) = Some f.
Proof. exact footer_decode_encode. Qed.
Print Assumptions C31_footer_roundtrip.

(* Non-vacuity: a concrete buffer with two valid footers and a corrupt one in between;
   H is a toy hash (sum of bytes repeated) -- the theorems hold for every H. *)
Definition toyH (x : bytes) : bytes := repeat (fold_left N.add x 0%N mod 256)%N 32.
Definition mk (toc : bytes) (g : N) : bytes :=
  toc ++ footer_encode (mkFooter (N.of_nat (length toc)) (toyH toc) g).
Definition sample : bytes := mk [1;2;3]%N 1 ++ [77;77]%N ++ mk [9;9;77;4]%N 2 ++ [77;0;1]%N.

Example C31_nonvacuous :
  exists s, find_last_valid_footer toyH sample = Some s /\
            fs_footer_offset s = 65 /\ generation (fs_footer s) = 2%N /\
            fs_toc_bytes s = [9;9;77;4]%N /\ valid_at toyH sample 3 = true.
Proof. eexists. vm_compute. repeat split. Qed.

(* (5) the model's constants are the ones in src/footer.rs now (regenerated each run). *)
Theorem C31_consts_tied :
  FOOTER_MAGIC = MV.Gen.Consts.FOOTER_MAGIC /\ N.of_nat FOOTER_SIZE = MV.Gen.Consts.FOOTER_SIZE.
Proof. exact footer_consts_tied. Qed.
Print Assumptions C31_consts_tied.
