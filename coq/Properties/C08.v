(* C08 Deleted and superseded frames disappear from every read path.
   Model: Model/Reads.v (index sets, update_frame's inheritance / carried embedding, the read paths)
   on top of Model/Store.v (frame table) and Model/StoreSpec.v (reference table of C01).
   Proofs: Proofs/ReadsProofs.v. *)
From MV Require Import Base.Prelude Model.Store Model.StoreSpec Proofs.StoreProofs Model.Reads Proofs.ReadsProofs.
Local Open Scope N_scope.

(* 1. For EVERY history (puts plain / chunked / embedded / instant-indexed, updates with or without
   payload, options, embedding, deletes, commits, reopen, crash + replay, every timing of automatic
   checkpoints) and in EVERY state of it (also with uncommitted changes pending):
   every entry of the time index is an Active committed Document frame, every entry of the vector
   index is an Active committed frame, and every document of the Tantivy engine is an Active committed
   frame unless an instant-indexed put still waits for its commit (tdirty).  No side condition. *)
Theorem C08_index_sets_hold_active_frames_only :
  forall rops : list rop,
    let r := fst (rrun rstore0 rops) in
    let fr := committed (base r) in
    (forall i, In i (tix r) -> is_active fr i = true /\ has_role fr 0 i = true) /\
    (forall i, In i (map fst (vec r)) -> is_active fr i = true) /\
    (tdirty r = false -> forall i, In i (lex r) -> is_active fr i = true).
Proof.
  intros rops r fr. pose proof (rrun_inv rops rstore0 IxInv0) as HI. fold r in HI.
  pose proof HI as (_ & H1 & _ & H3 & _). split; [exact H1|]. split; [|exact H3].
  intros i Hi. eapply vec_member; eauto.
Qed.
Print Assumptions C08_index_sets_hold_active_frames_only.

(* the same in every intermediate state of the history *)
Theorem C08_index_invariant_all_states :
  forall rops, Forall (fun ro => IxInv (fst ro)) (snd (rrun rstore0 rops)).
Proof. intros rops. apply rrun_inv_all, IxInv0. Qed.
Print Assumptions C08_index_invariant_all_states.

(* 2. Hence no read path names a frame that is not Active.  The engines are oracles: the ONLY thing
   assumed of Tantivy's search, of the vector ranking and of ask's fusion / re-ranking is that they
   return members of what they were given.  `returned_by_some_read` = search, search_vec,
   vec_search_with_embedding, search_adaptive, ask (all its retrieval calls: lexical variants, timeline
   fallback with child frames, vector candidates), timeline (entries and child frames), and
   frame_by_uri's active-uri lookup. *)
Theorem C08_no_read_path_returns_inactive_partial :
  forall (query : Type) (engine_search : list N -> query -> list N) (post_hit : frame -> query -> bool)
         (vec_rank : list (N * N) -> query -> nat -> list N) (cutoff : list N -> nat) (fuse : list N -> list N),
    (forall docs q i, In i (engine_search docs q) -> In i docs) ->
    (forall vx q n i, In i (vec_rank vx q n) -> In i (map fst vx)) ->
    (forall l i, In i (fuse l) -> In i l) ->
    forall rops f,
      let r := fst (rrun rstore0 rops) in
      tdirty r = false -> Dense (committed (base r)) ->
      is_active (committed (base r)) f = false ->
      ~ returned_by_some_read query engine_search post_hit vec_rank cutoff fuse r f.
Proof.
  intros query es ph vr cu fu H1 H2 H3 rops f r Htd HD Hf.
  apply (inactive_never_returned query es ph vr cu fu H1 H2 H3); auto. apply rrun_inv, IxInv0.
Qed.
Print Assumptions C08_no_read_path_returns_inactive_partial.

(* 3. End to end: in a history from the empty memory, once an acknowledged delete / update of an
   existing frame f is committed (nothing pending), the committed table is the reference table of the
   acknowledged calls (C01), f is not Active in it, and no read path returns f.
   Partial: side condition run_ok of C01 (no update of a DocumentChunk frame), engine oracles. *)
Theorem C08_deleted_or_superseded_disappears_partial :
  forall (query : Type) (engine_search : list N -> query -> list N) (post_hit : frame -> query -> bool)
         (vec_rank : list (N * N) -> query -> nat -> list N) (cutoff : list N -> nat) (fuse : list N -> list N),
    (forall docs q i, In i (engine_search docs q) -> In i docs) ->
    (forall vx q n i, In i (vec_rank vx q n) -> In i (map fst vx)) ->
    (forall l i, In i (fuse l) -> In i l) ->
    forall rops,
      let r := fst (rrun rstore0 rops) in
      let xs := combine (sops rops) (souts rstore0 rops) in
      run_ok [] xs = true -> pending (base r) = [] -> tdirty r = false ->
      forall xs1 op o xs2 f,
        xs = xs1 ++ (op, o) :: xs2 -> acked o = true -> target_of op = Some f -> f < len (ref_run [] xs1) ->
        committed (base r) = ref_run [] xs /\
        NonActive (committed (base r)) (N.to_nat f) /\
        is_active (committed (base r)) f = false /\
        ~ returned_by_some_read query engine_search post_hit vec_rank cutoff fuse r f.
Proof. exact deleted_or_superseded_disappears. Qed.
Print Assumptions C08_deleted_or_superseded_disappears_partial.

(* 4. One acknowledged delete / update on the reference table: f stops being Active; an update makes f
   Superseded with superseded_by = the new frame (whose id is the table length), the new frame is
   Active, supersedes f, carries the requested uri or else the old one, and frame_by_uri of that uri
   returns it; a delete makes f Deleted with no successor.  And it stays non-Active forever. *)
Theorem C08_status_and_successor :
  forall R op o f,
    acked o = true -> target_of op = Some f -> f < len R ->
    NonActive (ref_step R (op, o)) (N.to_nat f) /\
    (forall nt uk a, op = OUpdate f nt uk a ->
       exists old g n, get R f = Some old /\
         nth_error (ref_step R (op, o)) (N.to_nat f) = Some g /\ f_status g = 1 /\ f_superseded_by g = Some (len R) /\
         ref_step R (op, o) = update_nth (N.to_nat f) (fun g => set_status g 1 (Some (len R))) R ++ [n] /\
         f_id n = len R /\ f_status n = 0 /\ f_supersedes n = Some f /\
         f_uri n = match uk with Some k => UExp k | None => f_uri old end /\
         frame_by_uri (ref_step R (op, o)) (f_uri n) = Some n) /\
    (forall a, op = ODelete f a ->
       exists g, nth_error (ref_step R (op, o)) (N.to_nat f) = Some g /\ f_status g = 2 /\ f_superseded_by g = None).
Proof. exact ref_step_marks. Qed.
Print Assumptions C08_status_and_successor.

Theorem C08_non_active_forever :
  forall xs R i, NonActive R i -> NonActive (ref_run R xs) i.
Proof. exact ref_run_mono. Qed.
Print Assumptions C08_non_active_forever.

(* in every reachable reference table every Superseded frame names a LATER frame that supersedes it,
   and an Active frame names none *)
Theorem C08_supersession_links :
  forall xs, Linked (ref_run [] xs).
Proof. intros xs. apply ref_run_linked, Linked_nil. Qed.
Print Assumptions C08_supersession_links.

(* 5. frame_by_uri, exactly: the LAST Active frame with that uri; if none is Active the last frame of
   any status with it; an error (None) iff no frame carries the uri. *)
Theorem C08_frame_by_uri_exact :
  forall frames u,
    match frame_by_uri frames u with
    | Some g =>
        exists l1 l2, frames = l1 ++ g :: l2 /\ f_uri g = u /\
          ((f_status g = 0 /\ forall y, In y l2 -> f_uri y = u -> f_status y <> 0) \/
           (f_status g <> 0 /\ (forall y, In y frames -> f_uri y = u -> f_status y <> 0) /\ forall y, In y l2 -> f_uri y <> u))
    | None => forall y, In y frames -> f_uri y <> u
    end.
Proof. exact frame_by_uri_spec. Qed.
Print Assumptions C08_frame_by_uri_exact.

(* 6. timeline names Active frames only (entries and child frames), whatever the time index holds *)
Theorem C08_timeline_active :
  forall frames tx keep reverse limit id kids,
    In (id, kids) (timeline frames tx keep reverse limit) ->
    (exists e f, get frames e = Some f /\ f_status f = 0 /\ f_id f = id) /\
    (forall k, In k kids -> exists c, In c frames /\ f_id c = k /\ f_status c = 0 /\ f_parent c = Some id).
Proof. exact timeline_active. Qed.
Print Assumptions C08_timeline_active.

(* 7. Inheritance: an acknowledged update queues for the new frame the ten option fields completed from
   the committed old version -- every field the update leaves unset equals the old value, every field
   it sets has the new value -- and the explicit embedding or else the one carried over from the vector
   index; what is recorded for a frame never changes afterwards. *)
Theorem C08_update_inherits_unset_fields :
  forall r t newtag auto opts text emb instant sq,
    fst (fst (snd (rstep r (RUpdate t newtag auto opts text emb instant)))) = Ok sq ->
    let old := a_fields (attr_of (attrs r) t) in
    exists nf,
      all_attrs (fst (rstep r (RUpdate t newtag auto opts text emb instant))) =
        all_attrs r ++ [mkAttr nf text match emb with Some e => Some e | None => if vec_on r then assocN (vec r) t else None end] /\
      (o_ts opts = None -> o_ts nf = o_ts old) /\ (o_track opts = None -> o_track nf = o_track old) /\
      (o_kind opts = None -> o_kind nf = o_kind old) /\ (o_uri opts = None -> o_uri nf = o_uri old) /\
      (o_title opts = None -> o_title nf = o_title old) /\ (o_meta opts = None -> o_meta nf = o_meta old) /\
      (o_stext opts = None -> o_stext nf = o_stext old) /\ (o_tags opts = [] -> o_tags nf = o_tags old) /\
      (o_labels opts = [] -> o_labels nf = o_labels old) /\ (o_extra opts = [] -> o_extra nf = o_extra old) /\
      (forall x, o_ts opts = Some x -> o_ts nf = Some x) /\ (forall x, o_track opts = Some x -> o_track nf = Some x) /\
      (forall x, o_kind opts = Some x -> o_kind nf = Some x) /\ (forall x, o_uri opts = Some x -> o_uri nf = Some x) /\
      (forall x, o_title opts = Some x -> o_title nf = Some x) /\ (forall x, o_meta opts = Some x -> o_meta nf = Some x) /\
      (forall x, o_stext opts = Some x -> o_stext nf = Some x) /\ (o_tags opts <> [] -> o_tags nf = o_tags opts) /\
      (o_labels opts <> [] -> o_labels nf = o_labels opts) /\ (o_extra opts <> [] -> o_extra nf = o_extra opts).
Proof.
  intros r t newtag auto opts text emb instant sq H old.
  exists (inherit opts old). split; [apply (update_inherits _ _ _ _ _ _ _ _ _ H)|].
  pose proof (inherit_unset opts old) as U. pose proof (inherit_set opts old) as S. tauto.
Qed.
Print Assumptions C08_update_inherits_unset_fields.

Theorem C08_attributes_append_only :
  forall r op, exists tail, all_attrs (fst (rstep r op)) = all_attrs r ++ tail.
Proof. exact all_attrs_append_only. Qed.
Print Assumptions C08_attributes_append_only.

(* 8. The chunked-document gap.  Intended reading of the property: a frame may be served only if it is
   LIVE = Active and, when it is a DocumentChunk, its document is Active too.  delete_frame /
   update_frame mark only the document frame: its chunk frames stay Active, stay in the engine, and are
   served.  Refuted by a four-step history; outside the class "chunk whose document is not Active"
   every member of every index set is live (and the time index never holds a chunk). *)
Definition chunk_gap_history : list rop :=
  [RPut None 1000 2 None empty_fields true None false; RCommit 1; RDelete 0 None; RCommit 1].

Theorem C08_chunks_outlive_their_document_refuted :
  exists rops,
    let r := fst (rrun rstore0 rops) in
    pending (base r) = [] /\ tdirty r = false /\
    is_active (committed (base r)) 0 = false /\
    exists i, In i (lex r) /\ live (committed (base r)) i = false /\ orphan_chunk (committed (base r)) i = true.
Proof. exists chunk_gap_history. vm_compute. repeat split. exists 1. repeat split. left. reflexivity. Qed.
Print Assumptions C08_chunks_outlive_their_document_refuted.

Theorem C08_index_members_live_outside_known :
  forall rops i,
    let r := fst (rrun rstore0 rops) in
    tdirty r = false ->
    (In i (tix r) -> live (committed (base r)) i = true) /\
    (In i (lex r) \/ In i (map fst (vec r)) -> orphan_chunk (committed (base r)) i = false -> live (committed (base r)) i = true).
Proof. intros rops i r Htd. apply index_members_live_outside_known; [apply rrun_inv, IxInv0|exact Htd]. Qed.
Print Assumptions C08_index_members_live_outside_known.

(* ---------- non-vacuity ---------- *)
(* a history with a chunked embedded document, an instant-indexed put, updates with and without payload
   (one carrying the embedding over), a delete, a crash with replay, a reopen; the hypotheses of the
   end-to-end theorem hold for the update of frame 3 and for the delete of frame 4, and the index sets
   are the expected ones *)
Definition f1 : fields := mkFields (Some 100) (Some 1) None None (Some 7) None (Some 0) [1; 2] [] [].
Definition demo : list rop :=
  [RPut (Some 1) 1000 2 None f1 true (Some 11) false;
   RPut None 2000 0 None f1 true (Some 12) true;
   RCommit 1;
   RPut None 3000 0 None f1 true None false;
   RCrash 1;
   RUpdate 3 None None (mkFields None (Some 9) None (Some 5) None None None [] [3] []) true None false;
   RDelete 4 None;
   RUpdate 99 None None empty_fields true None false;
   RReopen 1;
   RUpdate 5 (Some 4000) None empty_fields true (Some 13) false;
   RCommit 1;
   RRead [1; 5]].

Example C08_nonvacuous :
  let r := fst (rrun rstore0 demo) in
  let xs := combine (sops demo) (souts rstore0 demo) in
  run_ok [] xs = true /\ pending (base r) = [] /\ tdirty r = false /\
  (exists xs1 op o xs2, xs = xs1 ++ (op, o) :: xs2 /\ acked o = true /\ target_of op = Some 3 /\ 3 < len (ref_run [] xs1)) /\
  (exists xs1 op o xs2, xs = xs1 ++ (op, o) :: xs2 /\ acked o = true /\ target_of op = Some 4 /\ 4 < len (ref_run [] xs1)) /\
  map (fun f => (f_id f, f_status f, f_superseded_by f)) (committed (base r)) =
    [(0, 0, None); (1, 0, None); (2, 0, None); (3, 1, Some 5); (4, 2, None); (5, 1, Some 6); (6, 0, None)] /\
  tix r = [0; 6] /\ map fst (vec r) = [0; 6] /\ lex r = [0; 1; 2; 6] /\
  option_map f_id (frame_by_uri (committed (base r)) (UExp 5)) = Some 6 /\
  a_fields (attr_of (attrs r) 6) = mkFields (Some 100) (Some 9) None (Some 5) (Some 7) None (Some 0) [1; 2] [3] [].
Proof.
  vm_compute. repeat split.
  - exists (firstn 5 (combine (sops demo) (souts rstore0 demo))).
    eexists _, _, (skipn 6 (combine (sops demo) (souts rstore0 demo))). vm_compute. repeat split.
  - exists (firstn 6 (combine (sops demo) (souts rstore0 demo))).
    eexists _, _, (skipn 7 (combine (sops demo) (souts rstore0 demo))). vm_compute. repeat split.
Qed.

(* the engine hypotheses are satisfiable: engines that return everything they hold *)
Example C08_engine_hypotheses_satisfiable :
  let engine_search := fun (docs : list N) (_ : unit) => docs in
  let vec_rank := fun (vx : list (N * N)) (_ : unit) (n : nat) => firstn n (map fst vx) in
  let fuse := fun l : list N => rev l in
  (forall docs q i, In i (engine_search docs q) -> In i docs) /\
  (forall vx q n i, In i (vec_rank vx q n) -> In i (map fst vx)) /\
  (forall l i, In i (fuse l) -> In i l) /\
  search unit engine_search (fun _ _ => true) (committed (base (fst (rrun rstore0 demo)))) (lex (fst (rrun rstore0 demo))) tt = [0; 1; 2; 6].
Proof.
  cbv zeta. split; [auto|]. split; [intros vx q n i H; eapply firstn_in; eauto|]. split; [intros l i H; apply in_rev; exact H|].
  vm_compute. reflexivity.
Qed.
