(* C39 Sketch term filter has no false negatives; sketch track round-trips.
   Statements only; proofs live in Proofs/Sketch{Filter,Track,Gen}Proofs.v.
   Model: Model/Sketch.v (src/types/sketch_track.rs, debug-profile arithmetic). *)
From MV Require Import Base.Prelude Base.Facts Model.Sketch
  Proofs.SketchFilterProofs Proofs.SketchTrackProofs Proofs.SketchGenProofs Proofs.SketchTokProofs.

(* ------------------------------------------------------------------ part 1: the filter *)

(* (1) bit level, every input: any list of 64-bit (indeed any) hashes, any filter size but
       0, any hash of the list: the built filter reports it as possibly present.  The
       probes are h mod m, (h >> 16) mod m, (h >> 32) mod m with m = 8 * size. *)
Theorem C39_filter_no_false_negative :
  forall (hs : list N) (size : nat) (h : N),
    In h hs -> size <> 0%nat ->
    exists flt, build_term_filter hs size = Ok flt /\ length flt = size /\
                term_filter_maybe_contains flt h = Ok true.
Proof. exact build_no_false_negative. Qed.
Print Assumptions C39_filter_no_false_negative.

(* size 0 is excluded because the code divides by zero there (the three variants use
   16, 32, 64) *)
Theorem C39_filter_size0_panics :
  forall h r, build_term_filter (h :: r) 0 = Panic PANIC_REM_ZERO /\
              term_filter_maybe_contains [] h = Panic PANIC_REM_ZERO.
Proof. exact (fun h r => conj (build_size0_panics h r) (contains_empty_panics h)). Qed.
Print Assumptions C39_filter_size0_panics.

(* (2) the property's wording.  For ANY tokenizer, ANY token hash function, ANY weight
       formula with i32 weights small enough that six of them fit a u32 (idf_map = None
       gives 100, 200, 300), any text, any variant, any frame id: generate_sketch
       returns an entry (no panic) whose term filter reports every token the tokenizer
       produced from the text as possibly present. *)
Theorem C39_sketch_no_false_negative :
  forall (token : Type) (token_eqb : token -> token -> bool) (hash_token : token -> N)
         (raw_weight : token -> N -> Z),
    (forall a b, token_eqb a b = true -> a = b) ->
    (forall t c, (raw_weight t c <= 715827882)%Z) ->
    forall (text : Type) (tokenize : text -> list token) (fid : N) (txt : text) (v : variant) (t : token),
      In t (tokenize txt) ->
      exists e, generate_sketch token token_eqb hash_token raw_weight fid (tokenize txt) v = Ok e /\
                term_filter_maybe_contains (e_filter e) (hash_token t) = Ok true.
Proof. exact sketch_no_false_negative_text. Qed.
Print Assumptions C39_sketch_no_false_negative.

(* non-vacuity: the hypotheses are met by the instance the correspondence runs (tokens =
   UTF-8 byte strings, weights of idf_map = None), and the filter is not constantly
   "present": a hash that was not added is reported absent. *)
Example C39_sketch_hypotheses_met :
  (forall a b : bytes, bytes_eqb a b = true -> a = b) /\
  (forall (t : bytes) c, (raw_weight_no_idf t c <= 715827882)%Z).
Proof. exact (conj (fun a b => proj1 (bytes_eqb_spec a b)) raw_weight_no_idf_bound). Qed.

Example C39_filter_nonvacuous :
  exists flt, build_term_filter [81985529216486895; 1311768467463790320; 65535]%N 16 = Ok flt /\
              term_filter_maybe_contains flt 1311768467463790320%N = Ok true /\
              term_filter_maybe_contains flt 65535%N = Ok true /\
              term_filter_maybe_contains flt 4660%N = Ok false.
Proof. eexists. vm_compute. repeat split. Qed.

(* (2b) with the tokenizer modelled after its Unicode oracles: split on non-alphanumeric
        characters, keep a piece iff its UTF-8 BYTE length is >= 2.  The theorem quantifies
        over the tokens exactly as the tokenizer emits them -- a lone two-byte letter is
        one of them -- and nothing between the tokenizer and the filter drops a token. *)
Theorem C39_sketch_no_false_negative_tokenizer :
  forall (is_alnum : N -> bool) (text : Type) (normalise : text -> list N)
         (hash_token : list N -> N) (raw_weight : list N -> N -> Z),
    (forall t c, (raw_weight t c <= 715827882)%Z) ->
    forall fid (txt : text) v t,
      In t (tokenize_norm is_alnum (normalise txt)) ->
      exists e, generate_sketch (list N) (list_eqb N.eqb) hash_token raw_weight fid
                                (tokenize_norm is_alnum (normalise txt)) v = Ok e /\
                term_filter_maybe_contains (e_filter e) (hash_token t) = Ok true.
Proof. exact sketch_no_false_negative_bytelen. Qed.
Print Assumptions C39_sketch_no_false_negative_tokenizer.

(* the length rule is on bytes: one alphanumeric character alone is a token iff it is not
   ASCII; every token has >= 2 bytes and only alphanumeric characters *)
Theorem C39_tokenizer_byte_length_rule :
  forall (is_alnum : N -> bool),
    (forall c, is_alnum c = true -> tokenize_norm is_alnum [c] = if (c <? 128)%N then [] else [[c]]) /\
    (forall cs t, In t (tokenize_norm is_alnum cs) -> (2 <= str_len t)%N /\ forallb is_alnum t = true).
Proof.
  exact (fun a => conj (tokenize_norm_single a)
                       (fun cs t H => conj (tokenize_norm_bytes a cs t H) (tokenize_norm_alnum a cs t H))).
Qed.
Print Assumptions C39_tokenizer_byte_length_rule.

(* non-vacuity: "a à b, 日" -- the one-character tokens à (2 bytes) and 日 (3 bytes) are emitted,
   a and b (1 byte) are not, and the generated Small entry reports both as present *)
Definition sample_alnum (c : N) : bool := negb ((c =? 32) || (c =? 44))%N.
Definition sample_hash (t : list N) : N := fold_left (fun a c => a * 1000003 + c)%N t 7%N.
Example C39_tokenizer_nonvacuous :
  tokenize_norm sample_alnum [97; 32; 224; 32; 98; 44; 32; 26085]%N = [[224]; [26085]]%N /\
  exists e, generate_sketch (list N) (list_eqb N.eqb) sample_hash raw_weight_no_idf 0
                            (tokenize_norm sample_alnum [97; 32; 224; 32; 98; 44; 32; 26085]%N) Small = Ok e /\
            term_filter_maybe_contains (e_filter e) (sample_hash [224]%N) = Ok true /\
            term_filter_maybe_contains (e_filter e) (sample_hash [26085]%N) = Ok true /\
            term_filter_maybe_contains (e_filter e) (sample_hash [97]%N) = Ok false.
Proof. split; [vm_compute; reflexivity|]. eexists. vm_compute. repeat split. Qed.

(* ------------------------------------------------------------------ part 2: the track *)

(* (3) what read_sketch_track returns after write_sketch_track, for EVERY track whose
       fields fit their Rust types (track_wf), anywhere in a file: the entries
       renumbered 0,1,2,... and forced into the on-disk layout (readback). *)
Theorem C39_read_after_write :
  forall (pre suf : bytes) (t : track),
    track_wf t = true ->
    read_sketch_track (pre ++ write_sketch_track t ++ suf)
                      (N.of_nat (length pre)) (N.of_nat (length (write_sketch_track t)))
    = Ok (readback t).
Proof. exact read_write_readback. Qed.
Print Assumptions C39_read_after_write.

(* (4) the property as stated is refuted by the faithful model: the recorded witness, one
       Small entry for frame 3 with flags 23, comes back as frame 0 with flags 7 and no
       weight sum. *)
Theorem C39_track_roundtrip_refuted :
  exists t, track_wf t = true /\
            read_sketch_track (write_sketch_track t) 0 (N.of_nat (length (write_sketch_track t))) <> Ok t.
Proof. exact roundtrip_refuted. Qed.
Print Assumptions C39_track_roundtrip_refuted.

Example C39_track_witness_readback :
  read_sketch_track (write_sketch_track witness_track) 0 (N.of_nat (length (write_sketch_track witness_track)))
  = Ok (mkTrack Small [mkEntry 0 81985529216486895 (repeat 1%N 16) [7; 9]%N 0 7 0])
  /\ witness_track = mkTrack Small [mkEntry 3 81985529216486895 (repeat 1%N 16) [7; 9]%N 200 23 0]
  /\ known_class witness_track = true.
Proof. exact (conj witness_readback (conj eq_refl eq_refl)). Qed.

(* (5) outside the known class the round trip holds, for every track, any surrounding
       bytes.  known_class t = frame ids are not 0,1,2,.. in insertion order, or some
       entry's filter / top-term vector does not have the on-disk size (16/2 for Small,
       32/4 for Medium AND Large), or a Small entry carries weight sum / flags <> 7 /
       length hint. *)
Theorem C39_track_roundtrip_outside_known :
  forall (pre suf : bytes) (t : track),
    track_wf t = true -> known_class t = false ->
    read_sketch_track (pre ++ write_sketch_track t ++ suf)
                      (N.of_nat (length pre)) (N.of_nat (length (write_sketch_track t))) = Ok t.
Proof. exact roundtrip_outside_known. Qed.
Print Assumptions C39_track_roundtrip_outside_known.

(* (6) and the class is exact: a track round-trips if and only if it is outside it. *)
Theorem C39_track_roundtrip_iff :
  forall (pre suf : bytes) (t : track),
    track_wf t = true ->
    (read_sketch_track (pre ++ write_sketch_track t ++ suf)
                       (N.of_nat (length pre)) (N.of_nat (length (write_sketch_track t))) = Ok t
     <-> known_class t = false).
Proof. exact roundtrip_iff. Qed.
Print Assumptions C39_track_roundtrip_iff.

(* (7) how large the class is in practice: every Small and every Large entry that
       generate_sketch itself produces puts its track into it. *)
Theorem C39_generated_small_never_roundtrips :
  forall (token : Type) (token_eqb : token -> token -> bool) (hash_token : token -> N)
         (raw_weight : token -> N -> Z),
    (forall t c, (raw_weight t c <= 715827882)%Z) ->
    forall fid tokens e t,
      generate_sketch token token_eqb hash_token raw_weight fid tokens Small = Ok e ->
      t_variant t = Small -> In e (t_entries t) -> known_class t = true.
Proof. exact generated_small_in_known_class. Qed.
Print Assumptions C39_generated_small_never_roundtrips.

Theorem C39_generated_large_never_roundtrips :
  forall (token : Type) (token_eqb : token -> token -> bool) (hash_token : token -> N)
         (raw_weight : token -> N -> Z),
    (forall t c, (raw_weight t c <= 715827882)%Z) ->
    forall fid tokens e t,
      generate_sketch token token_eqb hash_token raw_weight fid tokens Large = Ok e ->
      t_variant t = Large -> In e (t_entries t) -> known_class t = true.
Proof. exact generated_large_in_known_class. Qed.
Print Assumptions C39_generated_large_never_roundtrips.

(* (8) the two halves of the property meet: after write + read of a Large track the
       truncated filter reports a token of its own text as absent. *)
Theorem C39_large_readback_false_negative :
  exists tokens e t' e' tok,
    idtok_sketch tokens = Ok e /\ In tok tokens /\
    term_filter_maybe_contains (e_filter e) tok = Ok true /\
    read_sketch_track (write_sketch_track (mkTrack Large [e])) 0
                      (N.of_nat (length (write_sketch_track (mkTrack Large [e])))) = Ok t' /\
    t_entries t' = [e'] /\
    term_filter_maybe_contains (e_filter e') tok = Ok false.
Proof. exact large_readback_false_negative. Qed.
Print Assumptions C39_large_readback_false_negative.

(* non-vacuity of (5): a Medium track of two entries with different contents, outside the
   class, inside the type ranges, between other bytes. *)
Definition sample_track : track :=
  mkTrack Medium [mkEntry 0 18446744073709551615 (repeat 255%N 32) [1; 2; 3; 4294967295]%N 65535 23 7;
                  mkEntry 1 42 (repeat 0%N 31 ++ [128]%N) [0; 0; 9; 0]%N 0 0 255].
Example C39_roundtrip_nonvacuous :
  track_wf sample_track = true /\ known_class sample_track = false /\
  read_sketch_track ([77; 86; 83; 75]%N ++ write_sketch_track sample_track ++ [1; 2; 3]%N) 4
                    (N.of_nat (length (write_sketch_track sample_track))) = Ok sample_track /\
  length (write_sketch_track sample_track) = 152.
Proof. vm_compute. repeat split. Qed.
