(* C24 Capacity limit is never exceeded by committed payloads.
   Statements only; proofs live in Proofs/CapacityProofs.v; the machine is in Model/Capacity.v:
   step_fixed / run_fixed follow put_internal's capacity check AS IT IS since fix f25e235
     payload_tail = max(cached_payload_end, data_end) + pending_payload_bytes
     check 1: payload_tail + prepared.len()        > limit -> CapacityExceeded{payload_tail, limit, prepared.len()}
     check 2: payload_tail + stored_payload_bytes  > limit -> CapacityExceeded{payload_tail, limit, stored_payload_bytes}
              (stored_payload_bytes = stored parent payload + separately compressed chunk payloads)
     pending_payload_bytes += stored_payload_bytes after the appends; reset to 0 by apply_records,
   together with capacity_limit / tier, ensure_mutation_allowed, apply_ticket, apply_records' payload
   placement, rebuild_indexes' data_end reset, grow_wal_region, ensure_wal_capacity, open.
   (step_old / run_old = the check before the fix, kept only for the historical lemmas of part (D).)

   The code compares an ABSOLUTE file offset with the byte budget; a growth of the embedded log moves
   every payload, so the statement that survives log growth is
       top + BASE0 <= limit + base         (BASE0 = 4096 + 65536 = start of the data region at creation,
                                            base = 4096 + wal_size = its start now)
   which is "payload end <= capacity" as the code measures it while the log has its initial size, and
   implies "size of the payload region <= capacity" always.  All three are stated, for
       top = max(cached_payload_end, real end of the frames that store bytes)
   (the two differ after begin_batch(wal_pre_size_bytes): ensure_wal_capacity moves the frames but
   not the cached end; a reopen recomputes it).

   Histories range over puts (any stored sizes, chunked or not, with or without embedding, any log
   growth, with or without automatic checkpoint), commits, tickets, reopen (any data_end), log
   pre-sizing.  The hypothesis tickets_ok: a ticket is only applied when what is stored and
   promised fits the capacity it grants and that is at least the 69632 bytes an empty memory ends at
   (a ticket granting less than what is already there makes "payload end <= capacity" false without
   any put; see C24_ticket_hypothesis_needed); and the data_end found at open is not before the
   frames (compute_data_end is a maximum over them; checked on every reopen of the correspondence run). *)
From MV Require Import Base.Prelude Model.Capacity Proofs.CapacityProofs.
Local Open Scope N_scope.

(* ================= (A) the capacity is never exceeded: every history ================= *)

Theorem C24_fixed_capacity_invariant :
  forall ops, tickets_ok true init ops ->
    let s := run_fixed init ops in
    top s + BASE0 <= limit s + base s /\
    (wal s = WAL_SIZE_TINY -> top s <= limit s) /\
    top s - base s <= limit s.
Proof. exact fixed_capacity_invariant. Qed.
Print Assumptions C24_fixed_capacity_invariant.

(* ... and whatever is pending will fit too: committing now stays within the capacity *)
Theorem C24_fixed_pending_fit :
  forall ops, tickets_ok true init ops ->
    let s := run_fixed init ops in top (commit s) + BASE0 <= limit s + base s.
Proof. exact fixed_pending_fit. Qed.
Print Assumptions C24_fixed_pending_fit.

(* ================= (B) a put that would exceed the limit fails with CapacityExceeded ================= *)

(* full_projection s st = max(payload end, data end) + pending stored bytes + the bytes this put stores *)
Theorem C24_fixed_put_rejects_excess :
  forall s emb chk st grow auto,
    mutation_allowed s = true -> limit s < full_projection s st ->
    code (snd (put true s emb chk st grow auto)) = 1.
Proof. exact put_fixed_rejects_excess. Qed.
Print Assumptions C24_fixed_put_rejects_excess.

Theorem C24_fixed_put_accepts_only_fitting :
  forall s emb chk st grow auto,
    code (snd (put true s emb chk st grow auto)) = 0 ->
    full_projection s st <= limit s /\ N.max (cpe s) (dend s) + sum (pend s) + chk <= limit s.
Proof. exact put_fixed_accepts_only_fitting. Qed.
Print Assumptions C24_fixed_put_accepts_only_fitting.

(* what a put returns: TicketRequired, or CapacityExceeded{current = payload_tail, limit, required}
   from the first check that fails (whole-payload size, then the bytes really stored), else Ok *)
Theorem C24_fixed_put_result :
  forall s emb chk st grow auto,
    snd (put true s emb chk st grow auto) =
      let t := N.max (cpe s) (dend s) + sum (pend s) in
      if negb (mutation_allowed s) then r_ticket_required
      else if limit s <? t + chk then r_cap t (limit s) chk
      else if limit s <? t + sum st then r_cap t (limit s) (sum st)
      else r_ok.
Proof. exact put_fixed_result. Qed.
Print Assumptions C24_fixed_put_result.

(* ================= (C) ... and leaves the memory unchanged ================= *)

(* exactly what a rejected put returns: the state it got, except that a put carrying an embedding
   has already run enable_vec() *)
Theorem C24_rejected_put_state :
  forall fixed s emb chk st grow auto,
    code (snd (put fixed s emb chk st grow auto)) <> 0 ->
    fst (put fixed s emb chk st grow auto) = (if emb && mutation_allowed s then set_vec s else s).
Proof. exact put_rejected_state. Qed.
Print Assumptions C24_rejected_put_state.

(* known finding F-C24-4 (not repaired): "unchanged" is refuted for a put with an embedding on a
   memory whose vector index is not enabled yet *)
Theorem C24_rejected_put_unchanged_refuted :
  exists s emb chk st grow auto,
    snd (put true s emb chk st grow auto) = r_cap (cpe s) (limit s) chk /\
    fst (put true s emb chk st grow auto) <> s.
Proof.
  exists (fst (ticket init 2 (Some BASE0) ISS_OTHER)), true, 10, [10], 0, false.
  split; [vm_compute; reflexivity|]. vm_compute. intros H. discriminate H.
Qed.
Print Assumptions C24_rejected_put_unchanged_refuted.

Theorem C24_rejected_put_unchanged_outside_known :
  forall fixed s emb chk st grow auto,
    emb = false \/ vec s = true ->
    code (snd (put fixed s emb chk st grow auto)) <> 0 ->
    fst (put fixed s emb chk st grow auto) = s.
Proof. exact put_rejected_unchanged. Qed.
Print Assumptions C24_rejected_put_unchanged_outside_known.

(* ================= non-vacuity ================= *)

(* a history meeting the hypotheses: ticket, accepted put, commit, rejected put (one byte too many),
   put that fills the capacity exactly, commit, reopen, pre-sizing of the log, rejected put *)
Definition sample_ok : list cop :=
  [OTicket 2 (Some (BASE0 + 3000)) ISS_OTHER; OPut false 2000 [2000] 0 false; OCommit 0;
   OPut false 1001 [1001] 0 false; OPut false 1000 [1000] 0 false; OCommit 0;
   OReopen (BASE0 + 3000 + 4000); OPresize 100000; OPut true 1 [1] 0 false].
Example C24_invariant_nonvacuous :
  tickets_okb true init sample_ok = true /\
  (let s := run_fixed init sample_ok in stored s = 3000 /\ wal s = 131072 /\ dend s = 142168).
Proof. vm_compute. repeat split. Qed.

(* the three histories that used to breach the capacity: the excess put is rejected *)
Definition witness_pending : list cop :=
  [OTicket 2 (Some (BASE0 + 3000)) ISS_OTHER;
   OPut false 2000 [2000] 0 false; OPut false 2000 [2000] 0 false; OPut false 2000 [2000] 0 false;
   OCommit 0].
Definition witness_stale_end : list cop :=
  [OTicket 2 (Some (BASE0 + 2000)) ISS_OTHER; OPut false 1700 [1700] 0 false; OCommit 0;
   OReopen 75408; OPut false 100 [100] 0 false; OCommit 0].
Definition witness_chunks : list cop :=
  [OTicket 2 (Some (BASE0 + 1600)) ISS_OTHER; OPut false 1501 [0; 363; 353; 418; 381; 408; 93] 0 false; OCommit 0].
Example C24_fixed_rejects_witnesses :
  tickets_okb true init witness_pending = true /\ cpe (run_fixed init witness_pending) = BASE0 + 2000 /\
  tickets_okb true init witness_stale_end = true /\ cpe (run_fixed init witness_stale_end) = BASE0 + 1700 /\
  tickets_okb true init witness_chunks = true /\ cpe (run_fixed init witness_chunks) = BASE0 /\
  (* the chunked document fails the SECOND check: required = 2016 = the bytes really stored *)
  snd (put true (fst (ticket init 2 (Some (BASE0 + 1600)) ISS_OTHER)) false 1501 [0; 363; 353; 418; 381; 408; 93] 0 false)
    = r_cap BASE0 (BASE0 + 1600) 2016.
Proof. vm_compute. repeat split. Qed.

(* the ticket hypothesis is needed: a ticket granting less than what is stored breaks
   "payload end <= capacity" with no put after it *)
Example C24_ticket_hypothesis_needed :
  let ops := [OPut false 5000 [5000] 0 false; OCommit 0; OTicket 2 (Some (BASE0 + 100)) ISS_OTHER] in
  tickets_okb true init ops = false /\ limit (run_fixed init ops) <? cpe (run_fixed init ops) = true.
Proof. vm_compute. repeat split. Qed.

(* log growth: the plain absolute reading fails after a growth (the payloads moved by 65536), the
   growth-corrected and the byte-budget readings hold *)
Example C24_growth_moves_the_absolute_end :
  let ops := [OTicket 2 (Some (BASE0 + 70000)) ISS_OTHER; OPut false 60000 [60000] 65536 true] in
  let s := run_fixed init ops in
  tickets_okb true init ops = true /\ wal s = 131072 /\ limit s <? cpe s = true /\
  cpe s + BASE0 <=? limit s + base s = true.
Proof. vm_compute. repeat split. Qed.

(* the model's constants are the ones in src/constants.rs now (regenerated each run) *)
Theorem C24_consts_tied :
  WAL_OFFSET = MV.Gen.Consts.WAL_OFFSET /\ WAL_SIZE_TINY = MV.Gen.Consts.WAL_SIZE_TINY /\
  WAL_SIZE_MEDIUM = MV.Gen.Consts.WAL_SIZE_MEDIUM /\ WAL_SIZE_LARGE = MV.Gen.Consts.WAL_SIZE_LARGE.
Proof. exact capacity_consts_tied. Qed.
Print Assumptions C24_consts_tied.

(* ================= (D) HISTORICAL: the check before fix f25e235 (step_old = step false) =================
   Not statements about the present code.  They record why the fix was needed and are the
   regression reference: a revert of the fix makes the implementation follow run_old again. *)

(* the old check (cached_payload_end + prepared.len() only) let the payload end pass the capacity:
   three 2000-byte puts into a budget of 3000 all accepted, 6000 bytes committed *)
Theorem C24_old_check_refuted_pending :
  exists ops, tickets_ok false init ops /\
    let s := run_old init ops in
    wal s = WAL_SIZE_TINY /\ limit s = BASE0 + 3000 /\ cpe s = BASE0 + 6000 /\ fend s = BASE0 + 6000 /\ stored s = 6000 /\
    ~ (top s <= limit s) /\ ~ (top s + BASE0 <= limit s + base s).
Proof.
  exists witness_pending. split; [apply tickets_okb_sound; vm_compute; reflexivity|].
  vm_compute. repeat split; intros H; apply H; reflexivity.
Qed.
Print Assumptions C24_old_check_refuted_pending.

(* after a reopen data_end (75408, behind the index segments) is beyond the cached payload end
   (71332); the old check admitted a 100-byte put behind the latter, stored behind the former *)
Theorem C24_old_check_refuted_stale_end :
  exists ops, tickets_ok false init ops /\
    let s := run_old init ops in
    limit s = 71632 /\ cpe s = 75508 /\ fend s = 75508 /\ stored s = 1800 /\ ~ (top s + BASE0 <= limit s + base s).
Proof.
  exists witness_stale_end. split; [apply tickets_okb_sound; vm_compute; reflexivity|].
  vm_compute. repeat split; intros H; apply H; reflexivity.
Qed.
Print Assumptions C24_old_check_refuted_stale_end.

(* a chunked document was admitted on the compressed size of the whole text (1501) and stored as
   separately compressed chunks (2016) *)
Theorem C24_old_check_refuted_chunks :
  exists ops, tickets_ok false init ops /\
    let s := run_old init ops in
    limit s = BASE0 + 1600 /\ cpe s = BASE0 + 2016 /\ fend s = BASE0 + 2016 /\ ~ (top s + BASE0 <= limit s + base s).
Proof.
  exists witness_chunks. split; [apply tickets_okb_sound; vm_compute; reflexivity|].
  vm_compute. repeat split; intros H; apply H; reflexivity.
Qed.
Print Assumptions C24_old_check_refuted_chunks.

(* the old check kept the invariant exactly on the histories in which no accepted put was
   under-counted, and under-counting had exactly three causes *)
Theorem C24_old_check_invariant_outside_undercounted :
  forall ops, known_class init ops = false -> tickets_ok false init ops ->
    let s := run_old init ops in
    top s + BASE0 <= limit s + base s /\
    (wal s = WAL_SIZE_TINY -> top s <= limit s) /\
    top s - base s <= limit s.
Proof. exact old_capacity_invariant_outside_known. Qed.
Print Assumptions C24_old_check_invariant_outside_undercounted.

Theorem C24_old_check_undercount_reasons :
  forall s emb chk st grow auto,
    undercounted s (OPut emb chk st grow auto) = true ->
    by_pending s = true \/ by_stale_end s = true \/ by_chunks chk st = true.
Proof. exact undercounted_reasons. Qed.
Print Assumptions C24_old_check_undercount_reasons.
