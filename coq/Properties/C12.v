(* C12 ACL enforcement never leaks a denied frame.
   Statements only; proofs live in Proofs/AclProofs.v.  The model (Model/Acl.v) follows
   src/memvid/acl.rs and the ACL stage of its four call sites.  Every theorem holds for
   EVERY pair of JSON parsers (json_str = serde_json::from_str::<String>, json_arr =
   ::<Vec<String>>), every frame table, every hit list, every hit payload type P, every
   build_context / hit-conversion / adaptive-cutoff function.

   The specification (Model/Acl.v, Section Spec) is spelled out from the property text:
     grants m c              metadata well formed, same tenant, public or a credential matches
     other_tenant m c        DENY: well formed, tenants differ
     restricted_no_match m c DENY: well formed, same tenant, restricted, no principal/role/group on a list
     bad_metadata m          DENY: tenant or visibility missing/blank/unknown, or a list key
                             that is not a JSON array of non-blank strings
     readable fm c id        frame id exists and its metadata grants c
     no_tenant c             no context, or tenant absent / blank. *)
From MV Require Import Base.Prelude Model.JsonStr Model.Acl Proofs.AclProofs Corr.C12.

(* (1) The decision, for ALL metadata maps and contexts (what the hook acl_decide returns):
       None iff the caller has no usable tenant; otherwise allowed iff `grants`, and the three
       deny classes are told apart exactly (cross-tenant flag iff other tenant, missing flag
       iff bad metadata, no flag iff restricted without a match); denied iff one of the three. *)
Theorem C12_decide_allow_iff_grants :
  forall (json_str : str -> option str) (json_arr : str -> option (list str)) (m : meta) (c : acl_context),
    (acl_decide json_str json_arr m c = None <-> ~ has_tenant json_str c) /\
    (forall a x y, acl_decide json_str json_arr m c = Some (a, x, y) ->
       (a = true <-> grants json_str json_arr m c) /\
       (x = true <-> other_tenant json_str json_arr m c) /\
       (y = true <-> bad_metadata json_str json_arr m) /\
       (a = false /\ x = false /\ y = false <-> restricted_no_match json_str json_arr m c) /\
       (a = false <-> other_tenant json_str json_arr m c \/ restricted_no_match json_str json_arr m c
                      \/ bad_metadata json_str json_arr m)).
Proof. exact acl_decide_spec. Qed.
Print Assumptions C12_decide_allow_iff_grants.

(* (1b) the code's parse succeeds exactly on well-formed metadata, with those contents *)
Theorem C12_parse_iff_well_formed :
  forall json_str json_arr (m : meta) (p : parsed_acl),
    parse_acl_metadata json_str json_arr m = Some p <->
    well_formed json_str json_arr m (p_tenant p) (p_public p) (p_roles p) (p_groups p) (p_principals p).
Proof. exact parse_acl_metadata_spec. Qed.
Print Assumptions C12_parse_iff_well_formed.

(* (1c) normalize_scalar computes `reads_as`; trim is the part between the longest whitespace
        prefix and suffix; lower is idempotent and leaves no A-Z *)
Theorem C12_normalize_scalar_spec :
  forall json_str (v : option str) (out : str),
    normalize_scalar json_str v = Some out <-> reads_as json_str v out.
Proof. exact normalize_scalar_spec. Qed.
Print Assumptions C12_normalize_scalar_spec.

Theorem C12_trim_spec :
  forall s : str,
    exists a b, s = a ++ trim s ++ b /\ forallb is_ws a = true /\ forallb is_ws b = true /\
                match trim s with [] => True | c :: _ => is_ws c = false end /\
                match rev (trim s) with [] => True | c :: _ => is_ws c = false end.
Proof. exact trim_spec. Qed.
Print Assumptions C12_trim_spec.

Theorem C12_lower_spec :
  forall s : str, lower (lower s) = lower s /\ length (lower s) = length s /\
                  forallb (fun c => negb ((65 <=? c) && (c <=? 90)))%N (lower s) = true.
Proof. exact (fun s => conj (lower_idem s) (conj (lower_length s) (lower_no_upper s))). Qed.
Print Assumptions C12_lower_spec.

(* (2) apply_acl_to_search_hits in Enforce returns exactly the readable hits, in their
       original order, ranked 1..n (and counts them). *)
Theorem C12_apply_enforce_exact :
  forall json_str json_arr (P : Type) (frame_meta : N -> option meta)
         (hits : list (hit P)) (c : acl_context) (out : list (hit P)) (st : stats),
    apply_acl json_str json_arr P frame_meta hits (Some c) Enforce = Ok (out, st) ->
    exists keep : hit P -> bool,
      (forall h, keep h = true <-> readable json_str json_arr frame_meta c (h_frame h)) /\
      map (fun h => (h_frame h, h_body h)) out = map (fun h => (h_frame h, h_body h)) (filter keep hits) /\
      (forall k h, nth_error out k = Some h -> h_rank h = (N.of_nat k + 1)%N) /\
      Forall (fun h => readable json_str json_arr frame_meta c (h_frame h)) out /\
      st_allowed st = N.of_nat (length out) /\ (st_allowed st + st_denied st = N.of_nat (length hits))%N.
Proof. exact apply_enforce_exact. Qed.
Print Assumptions C12_apply_enforce_exact.

(* (3) Enforce is an error exactly when there is no usable tenant, and the ACL stage never panics. *)
Theorem C12_apply_enforce_error_iff_no_tenant :
  forall json_str json_arr (P : Type) (frame_meta : N -> option meta) (hits : list (hit P)) (c : option acl_context),
    (forall r, apply_acl json_str json_arr P frame_meta hits c Enforce <> Ok r) <-> no_tenant json_str c.
Proof. exact apply_enforce_err_iff. Qed.
Print Assumptions C12_apply_enforce_error_iff_no_tenant.

Theorem C12_apply_never_panics :
  forall json_str json_arr (P : Type) (frame_meta : N -> option meta) (hits : list (hit P))
         (c : option acl_context) (mode : acl_mode) (s : N),
    apply_acl json_str json_arr P frame_meta hits c mode <> Panic s.
Proof. exact apply_never_panics. Qed.
Print Assumptions C12_apply_never_panics.

(* (4) Audit returns the hit list unchanged, whatever the context. *)
Theorem C12_apply_audit_unchanged :
  forall json_str json_arr (P : Type) (frame_meta : N -> option meta) (hits : list (hit P)) (c : option acl_context),
    exists st, apply_acl json_str json_arr P frame_meta hits c Audit = Ok (hits, st).
Proof. exact apply_audit_unchanged. Qed.
Print Assumptions C12_apply_audit_unchanged.

(* (5) NO LEAK at the four call sites: under Enforce every hit, citation and context fragment
       refers to a readable frame, and the context string is build_context of exactly those hits. *)
Theorem C12_search_no_leak :
  forall json_str json_arr (P : Type) (frame_meta : N -> option meta) (C : Type) (build_context : list (hit P) -> C)
         (pre : pre_search P C) (c : acl_context) (r : response P C),
    search_acl json_str json_arr P frame_meta C build_context pre (Some c) Enforce = Ok r ->
    Forall (fun h => readable json_str json_arr frame_meta c (h_frame h)) (r_hits r) /\
    r_context r = build_context (r_hits r) /\ r_total r = N.of_nat (length (r_hits r)).
Proof. exact search_no_leak. Qed.
Print Assumptions C12_search_no_leak.

Theorem C12_vec_search_no_leak :
  forall json_str json_arr (P : Type) (frame_meta : N -> option meta) (C : Type) (build_context : list (hit P) -> C)
         (conv : N -> option P) (pre : outcome (list N)) (top_k : nat) (c : acl_context) (r : response P C),
    vec_search_acl json_str json_arr P frame_meta C build_context conv pre top_k (Some c) Enforce = Ok r ->
    Forall (fun h => readable json_str json_arr frame_meta c (h_frame h)) (r_hits r) /\
    r_context r = build_context (r_hits r) /\ r_total r = N.of_nat (length (r_hits r)).
Proof. exact vec_search_no_leak. Qed.
Print Assumptions C12_vec_search_no_leak.

Theorem C12_adaptive_search_no_leak :
  forall json_str json_arr (P : Type) (frame_meta : N -> option meta) (C : Type) (build_context : list (hit P) -> C)
         (conv : N -> option P) (cutoff : list (hit P) -> nat) (has_scores : list (hit P) -> bool)
         (enabled : bool) (pre : outcome (list N)) (max_results : nat) (c : acl_context) (out : list (hit P)),
    search_adaptive_acl json_str json_arr P frame_meta C build_context conv cutoff has_scores
                        enabled pre max_results (Some c) Enforce = Ok out ->
    Forall (fun h => readable json_str json_arr frame_meta c (h_frame h)) out.
Proof. exact adaptive_no_leak. Qed.
Print Assumptions C12_adaptive_search_no_leak.

Theorem C12_ask_no_leak :
  forall json_str json_arr (P : Type) (frame_meta : N -> option meta) (C : Type) (build_context : list (hit P) -> C)
         (pre : outcome (list (hit P) * N)) (context_only : bool) (c : acl_context) (a : ask_response P C),
    ask_acl json_str json_arr P frame_meta C build_context pre context_only (Some c) Enforce = Ok a ->
    Forall (fun h => readable json_str json_arr frame_meta c (h_frame h)) (a_hits a) /\
    a_context a = build_context (a_hits a) /\
    a_total a = N.of_nat (length (a_hits a)) /\
    Forall (fun ci => readable json_str json_arr frame_meta c (snd ci)) (a_citations a) /\
    Forall (fun fr => readable json_str json_arr frame_meta c (snd fr)) (a_fragments a).
Proof. exact ask_no_leak. Qed.
Print Assumptions C12_ask_no_leak.

(* (6) AUDIT returns what no ACL context returns, at the four call sites (for search: the
       engine's response itself, untouched). *)
Theorem C12_search_audit_same_as_no_context :
  forall json_str json_arr (P : Type) (frame_meta : N -> option meta) (C : Type) (build_context : list (hit P) -> C)
         (pre : pre_search P C) (c : option acl_context),
    search_acl json_str json_arr P frame_meta C build_context pre c Audit =
    search_acl json_str json_arr P frame_meta C build_context pre None Audit /\
    (forall r, pre = PreResp P C r -> search_acl json_str json_arr P frame_meta C build_context pre c Audit = Ok r).
Proof. exact search_audit_same. Qed.
Print Assumptions C12_search_audit_same_as_no_context.

Theorem C12_vec_search_audit_same_as_no_context :
  forall json_str json_arr (P : Type) (frame_meta : N -> option meta) (C : Type) (build_context : list (hit P) -> C)
         (conv : N -> option P) (pre : outcome (list N)) (top_k : nat) (c : option acl_context),
    vec_search_acl json_str json_arr P frame_meta C build_context conv pre top_k c Audit =
    vec_search_acl json_str json_arr P frame_meta C build_context conv pre top_k None Audit.
Proof. exact vec_search_audit_same. Qed.
Print Assumptions C12_vec_search_audit_same_as_no_context.

Theorem C12_adaptive_search_audit_same_as_no_context :
  forall json_str json_arr (P : Type) (frame_meta : N -> option meta) (C : Type) (build_context : list (hit P) -> C)
         (conv : N -> option P) (cutoff : list (hit P) -> nat) (has_scores : list (hit P) -> bool)
         (enabled : bool) (pre : outcome (list N)) (max_results : nat) (c : option acl_context),
    search_adaptive_acl json_str json_arr P frame_meta C build_context conv cutoff has_scores enabled pre max_results c Audit =
    search_adaptive_acl json_str json_arr P frame_meta C build_context conv cutoff has_scores enabled pre max_results None Audit.
Proof. exact adaptive_audit_same. Qed.
Print Assumptions C12_adaptive_search_audit_same_as_no_context.

Theorem C12_ask_audit_same_as_no_context :
  forall json_str json_arr (P : Type) (frame_meta : N -> option meta) (C : Type) (build_context : list (hit P) -> C)
         (pre : outcome (list (hit P) * N)) (context_only : bool) (c : option acl_context),
    ask_acl json_str json_arr P frame_meta C build_context pre context_only c Audit =
    ask_acl json_str json_arr P frame_meta C build_context pre context_only None Audit.
Proof. exact ask_audit_same. Qed.
Print Assumptions C12_ask_audit_same_as_no_context.

(* (7) ENFORCE WITHOUT A TENANT IS AN ERROR.  For ask it holds outright: *)
Theorem C12_ask_enforce_without_tenant_never_ok :
  forall json_str json_arr (P : Type) (frame_meta : N -> option meta) (C : Type) (build_context : list (hit P) -> C)
         (pre : outcome (list (hit P) * N)) (context_only : bool) (c : option acl_context),
    no_tenant json_str c ->
    forall a, ask_acl json_str json_arr P frame_meta C build_context pre context_only c Enforce <> Ok a.
Proof. exact ask_enforce_no_tenant. Qed.
Print Assumptions C12_ask_enforce_without_tenant_never_ok.

(* For search and the vector searches the faithful model REFUTES it (finding F-C12-1): the
   early `return Ok(empty response)` exits (empty/unmatched date range, empty replay set,
   no vector candidates e.g. top_k = 0) are taken before the ACL stage validates the context. *)
Theorem C12_search_enforce_without_tenant_is_error_refuted :
  forall json_str json_arr (P : Type) (frame_meta : N -> option meta) (C : Type) (build_context : list (hit P) -> C),
    exists (pre : pre_search P C) (c : option acl_context) (r : response P C),
      no_tenant json_str c /\
      search_acl json_str json_arr P frame_meta C build_context pre c Enforce = Ok r.
Proof. exact search_enforce_no_tenant_refuted_ex. Qed.
Print Assumptions C12_search_enforce_without_tenant_is_error_refuted.

Theorem C12_vec_search_enforce_without_tenant_is_error_refuted :
  forall json_str json_arr (P : Type) (frame_meta : N -> option meta) (C : Type) (build_context : list (hit P) -> C)
         (conv : N -> option P),
    exists (pre : outcome (list N)) (top_k : nat) (c : option acl_context) (r : response P C),
      no_tenant json_str c /\
      vec_search_acl json_str json_arr P frame_meta C build_context conv pre top_k c Enforce = Ok r.
Proof. exact vec_search_enforce_no_tenant_refuted_ex. Qed.
Print Assumptions C12_vec_search_enforce_without_tenant_is_error_refuted.

(* ... and outside that class (known_class = early_exit_search / early_exit_vec, boolean
   functions of the input) the clause holds: *)
Theorem C12_search_enforce_without_tenant_outside_known :
  forall json_str json_arr (P : Type) (frame_meta : N -> option meta) (C : Type) (build_context : list (hit P) -> C)
         (pre : pre_search P C) (c : option acl_context),
    early_exit_search pre = false -> no_tenant json_str c ->
    forall r, search_acl json_str json_arr P frame_meta C build_context pre c Enforce <> Ok r.
Proof. exact search_enforce_no_tenant_outside_known. Qed.
Print Assumptions C12_search_enforce_without_tenant_outside_known.

Theorem C12_vec_search_enforce_without_tenant_outside_known :
  forall json_str json_arr (P : Type) (frame_meta : N -> option meta) (C : Type) (build_context : list (hit P) -> C)
         (conv : N -> option P) (pre : outcome (list N)) (top_k : nat) (c : option acl_context),
    early_exit_vec pre = false -> no_tenant json_str c ->
    forall r, vec_search_acl json_str json_arr P frame_meta C build_context conv pre top_k c Enforce <> Ok r.
Proof. exact vec_search_enforce_no_tenant_outside_known. Qed.
Print Assumptions C12_vec_search_enforce_without_tenant_outside_known.

Theorem C12_adaptive_search_enforce_without_tenant_outside_known :
  forall json_str json_arr (P : Type) (frame_meta : N -> option meta) (C : Type) (build_context : list (hit P) -> C)
         (conv : N -> option P) (cutoff : list (hit P) -> nat) (has_scores : list (hit P) -> bool)
         (enabled : bool) (pre : outcome (list N)) (max_results : nat) (c : option acl_context),
    early_exit_vec pre = false -> no_tenant json_str c ->
    forall r, search_adaptive_acl json_str json_arr P frame_meta C build_context conv cutoff has_scores
                                  enabled pre max_results c Enforce <> Ok r.
Proof. exact adaptive_enforce_no_tenant_outside_known. Qed.
Print Assumptions C12_adaptive_search_enforce_without_tenant_outside_known.

(* (8) COMPOSITION.  (a) Any later stage that only draws from readable lists (RRF fusion,
       re-ranking, promotion of corrections / temporal extremes, diversification, adaptive
       cut-off, sampling) returns a readable list. *)
Theorem C12_stage_drawing_from_readable_lists_is_readable :
  forall json_str json_arr (P : Type) (frame_meta : N -> option meta) (c : acl_context)
         (post : list (list (hit P)) -> list (hit P)) (ls : list (list (hit P))),
    draws_from post ->
    Forall (fun l => Forall (fun h => readable json_str json_arr frame_meta c (h_frame h)) l) ls ->
    Forall (fun h => readable json_str json_arr frame_meta c (h_frame h)) (post ls).
Proof. exact draws_from_readable. Qed.
Print Assumptions C12_stage_drawing_from_readable_lists_is_readable.

(* (b) ask with its candidate lists spelled out -- filtered lists (search / vector searches
       under the same context), UNFILTERED lists (timeline sampling: zero-hit fallback and
       analytical questions), an arbitrary fusion stage -- and the ACL pass as the last step:
       no leak whatever went in. *)
Theorem C12_ask_pipeline_no_leak :
  forall json_str json_arr (P : Type) (frame_meta : N -> option meta) (C : Type) (build_context : list (hit P) -> C)
         (fuse : list (list (hit P)) -> list (hit P)) (filtered unfiltered : list (list (hit P)))
         (total : N) (context_only : bool) (c : acl_context) (a : ask_response P C),
    ask_pipeline json_str json_arr P frame_meta C build_context fuse filtered unfiltered total context_only (Some c) Enforce = Ok a ->
    Forall (fun h => readable json_str json_arr frame_meta c (h_frame h)) (a_hits a) /\
    Forall (fun ci => readable json_str json_arr frame_meta c (snd ci)) (a_citations a) /\
    Forall (fun fr => readable json_str json_arr frame_meta c (snd fr)) (a_fragments a).
Proof. exact ask_pipeline_no_leak. Qed.
Print Assumptions C12_ask_pipeline_no_leak.

(* (c) WITHOUT the final pass the response is readable only when nothing unfiltered went in
       (all lists filtered, fusion only draws from them) -- see C12_no_final_pass_leaks below
       for what happens otherwise (the seeded change C12-1). *)
Theorem C12_ask_without_final_pass_needs_all_lists_filtered :
  forall json_str json_arr (P : Type) (frame_meta : N -> option meta) (C : Type) (build_context : list (hit P) -> C)
         (fuse : list (list (hit P)) -> list (hit P)) (filtered : list (list (hit P)))
         (total : N) (context_only : bool) (c : acl_context) (a : ask_response P C),
    draws_from fuse ->
    Forall (fun l => Forall (fun h => readable json_str json_arr frame_meta c (h_frame h)) l) filtered ->
    ask_pipeline_no_final_pass P C build_context fuse filtered [] total context_only = Ok a ->
    Forall (fun h => readable json_str json_arr frame_meta c (h_frame h)) (a_hits a).
Proof. exact ask_no_final_pass_readable_if_all_filtered. Qed.
Print Assumptions C12_ask_without_final_pass_needs_all_lists_filtered.

(* (d) The ACL stage is idempotent, so every Enforce response is a FIXED POINT of the model's
       last step: re-applying it to the returned hits changes nothing, and ask's citations and
       context fragments are those derived from exactly the returned hits.  This is the
       relation the `final` correspondence stream checks on every response of every entry
       point; a path that bypasses the last step and lets a denied frame through breaks it. *)
Theorem C12_apply_enforce_fixed_point :
  forall json_str json_arr (P : Type) (frame_meta : N -> option meta)
         (hits : list (hit P)) (c : acl_context) (out : list (hit P)) (st : stats),
    apply_acl json_str json_arr P frame_meta hits (Some c) Enforce = Ok (out, st) ->
    exists st', apply_acl json_str json_arr P frame_meta out (Some c) Enforce = Ok (out, st').
Proof. exact apply_enforce_fixed_point. Qed.
Print Assumptions C12_apply_enforce_fixed_point.

Theorem C12_ask_response_fixed_point :
  forall json_str json_arr (P : Type) (frame_meta : N -> option meta) (C : Type) (build_context : list (hit P) -> C)
         (pre : outcome (list (hit P) * N)) (context_only : bool) (c : acl_context) (a : ask_response P C),
    ask_acl json_str json_arr P frame_meta C build_context pre context_only (Some c) Enforce = Ok a ->
    (exists st, apply_acl json_str json_arr P frame_meta (a_hits a) (Some c) Enforce = Ok (a_hits a, st)) /\
    a_citations a = (if context_only then [] else citations_from P 0 (a_hits a)) /\
    a_fragments a = map (fun h => (h_rank h, h_frame h)) (a_hits a).
Proof. exact ask_response_fixed_point. Qed.
Print Assumptions C12_ask_response_fixed_point.

(* ---------------- non-vacuity: concrete instances, by vm_compute, with the serde_json hand model ---------------- *)
From Coq Require Import Ascii String.
Definition s (x : String.string) : str := map (fun a => N_of_ascii a) (String.list_ascii_of_string x).
Definition q := 34%N.   (* the double quote *)

(* tenant-a, visibility stored JSON-quoted ("restricted" with quotes), roles ["Admin"," analyst "] *)
Definition ex_meta : meta :=
  [ (K_TENANT, s " Tenant-A "); (K_VISIBILITY, q :: s "restricted" ++ [q]);
    (K_ROLES, s "[" ++ [q] ++ s "Admin" ++ [q] ++ s ", " ++ [q] ++ s " analyst " ++ [q] ++ s "]");
    (K_PRINCIPALS, s "[" ++ [q] ++ s "alice" ++ [q] ++ s "]") ].
Definition ex_public : meta := [ (K_TENANT, s "tenant-a"); (K_VISIBILITY, s "PUBLIC") ].
Definition ex_bad_list : meta := [ (K_TENANT, s "tenant-a"); (K_VISIBILITY, s "restricted"); (K_GROUPS, s "eng,ops") ].
Definition ex_ctx_role := mkCtx (Some (s "tenant-a")) (Some (s "bob")) [s "viewer"; s "ANALYST"] [].
Definition ex_ctx_nomatch := mkCtx (Some (s "tenant-a")) (Some (s "bob")) [s "viewer"] [s "eng"].
Definition ex_ctx_other := mkCtx (Some (s "tenant-b")) (Some (s "alice")) [s "admin"] [].
Definition ex_ctx_blank := mkCtx (Some (s "  ")) (Some (s "alice")) [s "admin"] [].

(* every branch of (1) is inhabited: allow by role, restricted without match, other tenant,
   bad metadata, and no usable tenant *)
Example C12_nonvacuous_decide :
  acl_decide json_string json_string_array ex_meta ex_ctx_role = Some (true, false, false) /\
  acl_decide json_string json_string_array ex_meta ex_ctx_nomatch = Some (false, false, false) /\
  acl_decide json_string json_string_array ex_meta ex_ctx_other = Some (false, true, false) /\
  acl_decide json_string json_string_array ex_bad_list ex_ctx_role = Some (false, false, true) /\
  acl_decide json_string json_string_array ex_public ex_ctx_nomatch = Some (true, false, false) /\
  acl_decide json_string json_string_array ex_meta ex_ctx_blank = None.
Proof. vm_compute. repeat split. Qed.

(* (2)/(5): four hits over frames 0..3 (restricted+role, public, bad list, missing frame):
   Enforce keeps frames 0 and 1, re-ranked 1,2; Audit keeps all four; Enforce with the
   blank-tenant context and with no context are the two errors *)
Definition ex_frames (id : N) : option meta :=
  if N.eqb id 0 then Some ex_meta else if N.eqb id 1 then Some ex_public
  else if N.eqb id 2 then Some ex_bad_list else None.
Definition ex_hits : list (hit unit) := [mkHit 1 2 tt; mkHit 2 0 tt; mkHit 3 3 tt; mkHit 4 1 tt]%N.
Definition ex_view (o : outcome (list (hit unit) * stats)) : outcome (list (N * N) * N * N) :=
  match o with
  | Ok (hs, st) => Ok (map (fun h => (h_rank h, h_frame h)) hs, st_allowed st, st_denied st)
  | Err k => Err k | Panic p => Panic p
  end.

Example C12_nonvacuous_apply :
  ex_view (apply_acl json_string json_string_array unit ex_frames ex_hits (Some ex_ctx_role) Enforce)
    = Ok ([(1, 0); (2, 1)], 2, 2)%N /\
  ex_view (apply_acl json_string json_string_array unit ex_frames ex_hits (Some ex_ctx_role) Audit)
    = Ok ([(1, 2); (2, 0); (3, 3); (4, 1)], 2, 2)%N /\
  ex_view (apply_acl json_string json_string_array unit ex_frames ex_hits (Some ex_ctx_blank) Enforce) = Err 2%N /\
  ex_view (apply_acl json_string json_string_array unit ex_frames ex_hits None Enforce) = Err 1%N.
Proof. vm_compute. repeat split. Qed.

(* (7): the refutation witness and a member of the complement class, computed *)
Example C12_nonvacuous_enforce_without_tenant :
  (exists r, search_acl json_string json_string_array unit ex_frames nat (@List.length _)
                        (PreEmpty unit nat) None Enforce = Ok r) /\
  early_exit_search (PreEmpty unit nat) = true /\
  early_exit_search (PreResp unit nat (mkResp unit nat ex_hits 4%N 4)) = false /\
  search_acl json_string json_string_array unit ex_frames nat (@List.length _)
             (PreResp unit nat (mkResp unit nat ex_hits 4%N 4)) (Some ex_ctx_blank) Enforce = Err 2%N /\
  early_exit_vec (Ok []) = true /\ early_exit_vec (Ok [3%N]) = false /\
  (exists r, vec_search_acl json_string json_string_array unit ex_frames nat (@List.length _) (fun _ => Some tt)
                            (Ok []) 0 (Some ex_ctx_blank) Enforce = Ok r) /\
  vec_search_acl json_string json_string_array unit ex_frames nat (@List.length _) (fun _ => Some tt)
                 (Ok [3%N]) 5 (Some ex_ctx_blank) Enforce = Err 2%N.
Proof. vm_compute. repeat split; eexists; reflexivity. Qed.

(* (5) for ask: citations and fragments of the filtered hits only *)
Example C12_nonvacuous_ask :
  match ask_acl json_string json_string_array unit ex_frames nat (@List.length _)
                (Ok (ex_hits, 4%N)) false (Some ex_ctx_role) Enforce with
  | Ok a => (map (fun h => h_frame h) (a_hits a), a_total a, a_context a, a_citations a, a_fragments a)
            = ([0; 1], 2, 2%nat, [(1, 0); (2, 1)], [(1, 0); (2, 1)])%N
  | _ => False
  end.
Proof. vm_compute. reflexivity. Qed.

(* (8): an analytical ask -- one filtered search list [frame 0; frame 1] and the UNFILTERED timeline
   list [frames 0,1,2,3]; fusion = concatenation (draws_from).  With the final pass only frames 0, 1
   come out; without it (seeded change C12-1) the bad-list frame 2 and the missing frame 3 leak,
   and the `final` runner of Corr/C12.v does not reproduce that response. *)
Definition ex_filtered : list (list (hit unit)) := [[mkHit 1 0 tt; mkHit 2 1 tt]]%N.
Definition ex_timeline : list (list (hit unit)) := [[mkHit 1 0 tt; mkHit 2 1 tt; mkHit 3 2 tt; mkHit 4 3 tt]]%N.
Definition ex_fuse (ls : list (list (hit unit))) : list (hit unit) := List.concat ls.

Example C12_no_final_pass_leaks :
  match ask_pipeline json_string json_string_array unit ex_frames nat (@List.length _)
                     ex_fuse ex_filtered ex_timeline 6%N false (Some ex_ctx_role) Enforce,
        ask_pipeline_no_final_pass unit nat (@List.length _) ex_fuse ex_filtered ex_timeline 6%N false with
  | Ok a, Ok b =>
      map (fun h => h_frame h) (a_hits a) = [0; 1; 0; 1]%N /\
      map (fun h => h_frame h) (a_hits b) = [0; 1; 0; 1; 2; 3]%N /\
      map snd (a_citations b) = [0; 1; 0; 1; 2; 3]%N /\
      acl_decide json_string json_string_array ex_bad_list ex_ctx_role = Some (false, false, true) /\
      MV.Corr.C12.C12_final_one [(0, ex_meta); (1, ex_public); (2, ex_bad_list)]%N
        (Some (Some (s "tenant-a"), Some (s "bob"), [s "viewer"; s "ANALYST"], []), true, 2%N,
         map (fun h => (h_rank h, h_frame h)) (a_hits b))
      <> Ok (map (fun h => (h_rank h, h_frame h)) (a_hits b), a_citations b, a_fragments b)
  | _, _ => False
  end.
Proof. vm_compute. repeat split; discriminate. Qed.

Example C12_draws_from_nonvacuous : draws_from ex_fuse.
Proof.
  intros ls h Hin. apply in_concat in Hin as [l [Hl Hh]]. exists l, h. auto.
Qed.
