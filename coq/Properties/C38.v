(* C38 SIMD distance equals the scalar definition.
   "For every pair of equal-length f32 vectors of any length, the accelerated L2 distance
    equals the scalar L2 distance up to floating-point rounding, is symmetric, and is zero
    when the vectors are equal."
   Statements only; proofs live in Proofs/SimdL2Proofs.v (carrier-generic, axiom-free) and
   Proofs/SimdL2Float.v (IEEE facts from Flocq).  The kernel (Model/SimdL2.v) is ONE
   definition over a carrier F; the code is its instance at binary32 (Model/SimdL2F32.v).

   What is NOT a theorem here: the quantitative bound |simd - scalar| <= 2*gamma_{n+1}*scalar.
   It is tested on every generated case by the harness oracle (harness/src/c38.rs). *)
From Coq Require Import ZArith List.
From Flocq Require Import IEEE754.BinarySingleNaN.
From MV Require Import Base.Prelude Model.SimdL2 Model.SimdL2F32 Proofs.SimdL2Proofs Proofs.SimdL2Float Corr.C38.

(* (i) "equal up to rounding": over ANY carrier whose addition is a commutative monoid
   (every commutative ring; subtraction and multiplication are arbitrary), for EVERY length,
   the 8-lane accumulation + horizontal sum + scalar remainder is exactly the scalar
   definition -- the plain left-to-right sum of (a_i - b_i)*(a_i - b_i).  So on floats the
   two computations differ only in the order in which the same roundings-of-sums happen. *)
Theorem C38_exact_kernel_equals_scalar_definition :
  forall (F : Type) (zero : F) (add sub mul : F -> F -> F),
    (forall x y, add x y = add y x) ->
    (forall x y z, add x (add y z) = add (add x y) z) ->
    (forall x, add zero x = x) ->
    forall a b : list F, length a = length b ->
      l2_distance_squared_simd F zero zero add sub mul a b = Ok (l2sq_scalar F zero add sub mul a b).
Proof. exact simd_sq_exact_monoid. Qed.
Print Assumptions C38_exact_kernel_equals_scalar_definition.

(* ... instantiated at the ring Z: the kernel computes  sum_i (a_i - b_i)^2  exactly. *)
Theorem C38_exact_kernel_over_Z :
  forall a b : list Z, length a = length b ->
    l2_distance_squared_simd Z 0%Z 0%Z Z.add Z.sub Z.mul a b =
    Ok (fold_left Z.add (map (fun p => ((fst p - snd p) * (fst p - snd p))%Z) (combine a b)) 0%Z).
Proof. exact simd_sq_exact_Z. Qed.
Print Assumptions C38_exact_kernel_over_Z.

(* ... and at binary32 itself both results are sums of the SAME rounded terms
   t_i = fl(fl(a_i - b_i)^2): the kernel adds them lane-wise (body_terms), the scalar definition
   left to right.  Only the order of the rounded additions differs. *)
Theorem C38_same_terms_different_order :
  forall a b : list f32, length a = length b ->
    let t := term f32 f32_pzero f32_sub f32_mul a b in
    f32_l2sq_body a b = body_terms f32 f32_pzero f32_nzero f32_add t (length a) /\
    f32_l2sq_scalar a b = fold_left f32_add (map t (seq 0 (length a))) f32_nzero.
Proof. exact f32_same_terms. Qed.
Print Assumptions C38_same_terms_different_order.

(* (ii) symmetry in binary32, bit for bit, for ALL inputs of ALL lengths: no hypothesis at all
   (signed zeros, subnormals, infinities, overflow included; unequal lengths panic both ways;
   the model has a single NaN, so "bit for bit" is modulo the payload of a NaN result).
   Rests on two IEEE facts proved from Flocq for round-to-nearest-even:
   |fl(x-y)| = |fl(y-x)| (Babs_minus_sym) and fl(d*d) depends only on |d| (Bmult_self_abs). *)
Theorem C38_symmetric :
  forall a b : list f32,
    f32_l2_distance_squared_simd a b = f32_l2_distance_squared_simd b a /\
    f32_l2_distance_simd a b = f32_l2_distance_simd b a.
Proof. exact f32_symmetric_both. Qed.
Print Assumptions C38_symmetric.

(* the same on u32 bit patterns, as the correspondence runner sees it *)
Theorem C38_symmetric_bits :
  forall av bv : list N, C38_run (av, bv) = C38_run (bv, av).
Proof. exact C38_run_sym. Qed.
Print Assumptions C38_symmetric_bits.

(* the scalar definition is symmetric too *)
Theorem C38_scalar_symmetric :
  forall a b : list f32, f32_l2sq_scalar a b = f32_l2sq_scalar b a.
Proof. exact f32_scalar_sq_sym. Qed.
Print Assumptions C38_scalar_symmetric.

(* (iii) equal vectors of finite components, any length: exactly +0.0 (bit pattern 0),
   squared and square-rooted. *)
Theorem C38_equal_vectors_give_plus_zero :
  forall a : list f32, Forall f32_finite a ->
    f32_l2_distance_squared_simd a a = Ok f32_pzero /\
    f32_l2_distance_simd a a = Ok f32_pzero /\
    f32_to_bits f32_pzero = 0%N.
Proof. exact f32_equal_vectors_plus_zero. Qed.
Print Assumptions C38_equal_vectors_give_plus_zero.

(* (iv) finite components (no NaN/infinity among the inputs), equal lengths: both results exist
   and are not NaN and not negative (sign bit clear): +0, a positive finite number, or +inf --
   even when intermediate results overflow. *)
Theorem C38_never_negative_or_nan :
  forall a b : list f32, length a = length b -> Forall f32_finite a -> Forall f32_finite b ->
    exists sq d, f32_l2_distance_squared_simd a b = Ok sq /\ f32_l2_distance_simd a b = Ok d /\
                 (is_nan sq = false /\ Bsign sq = false) /\ (is_nan d = false /\ Bsign d = false).
Proof. exact f32_simd_nonneg. Qed.
Print Assumptions C38_never_negative_or_nan.

(* ---------- non-vacuity and necessity of the hypotheses ---------- *)
Definition v (l : list N) : list f32 := map f32_of_bits l.
(* 1.0 -2.5 2^-149 (min subnormal) 3.4028235e38 (max finite) 0.1 -0.0 1e-20 7.0 12345.678 *)
Definition sampleA : list N :=
  [1065353216; 3223322624; 1; 2139095039; 1036831949; 2147483648; 507307272; 1088421888; 1178658487;
   1065353216; 1073741824]%N.
Definition sampleB : list N :=
  [1073741824; 1065353216; 8388608; 2139095039; 1045220557; 0; 3212836864; 1088421888; 1178658487;
   3212836864; 0]%N.

(* finite vectors of length 11 (one chunk + remainder 3) exist; the kernel gives 0x41b2147b = 22.26
   on them, both ways round, and +0 on equal ones *)
Example C38_nonvacuous :
  forallb (fun x => is_finite x) (v sampleA) = true /\ forallb (fun x => is_finite x) (v sampleB) = true /\
  C38_run (sampleA, sampleB) = Ok (1102189691, 1083636293)%N /\
  C38_run (sampleB, sampleA) = Ok (1102189691, 1083636293)%N /\
  C38_run (sampleA, sampleA) = Ok (0, 0)%N.
Proof. vm_compute. repeat split. Qed.

(* "finite" is needed in (iii) and (iv): inf - inf is NaN *)
Example C38_finite_needed :
  C38_run ([2139095040], [2139095040])%N = Ok (2143289344, 2143289344)%N.
Proof. vm_compute. reflexivity. Qed.

(* overflow does not produce NaN or a negative result: (max - (-max))^2 = +inf *)
Example C38_overflow_gives_plus_inf :
  C38_run ([2139095039], [4286578687])%N = Ok (2139095040, 2139095040)%N.
Proof. vm_compute. reflexivity. Qed.

(* the two definitions are NOT bit-identical, only equal up to rounding: on vectors of length 0
   the kernel gives +0.0 and the scalar definition -0.0 (std's f32 sum folds from -0.0) *)
Example C38_not_bit_identical :
  C38_run ([], []) = Ok (0, 0)%N /\ C38_scalar_run ([], []) = (2147483648, 2147483648)%N.
Proof. vm_compute. split; reflexivity. Qed.

(* ... and 16 components in [-1,1] on which the lane order changes the rounded sum by one ulp
   (kernel 0x41246bd8, scalar definition differs) *)
Definition diffA : list N :=
  [3211730298; 1048776396; 3185818560; 1059558218; 1063193540; 1046283920; 3202952568; 1005954816;
   3212196458; 1058162152; 3212503268; 3202738088; 3195115184; 1046399872; 3206196436; 3209936278]%N.
Definition diffB : list N :=
  [1020174784; 3196380504; 1063164494; 1052412544; 1052503544; 3209034640; 1050496020; 3208046704;
   3167479552; 3196096732; 1061315978; 3189619832; 3209493946; 1059868088; 3211947488; 3192882384]%N.
Example C38_rounding_differs :
  C38_run (diffA, diffB) = Ok (1092898072, 1078793864)%N /\
  fst (C38_scalar_run (diffA, diffB)) <> 1092898072%N.
Proof. vm_compute. split; [reflexivity | discriminate]. Qed.

(* unequal lengths: the debug assertion fires (modelled as Panic), both ways round *)
Example C38_length_mismatch_panics :
  C38_run ([0], [0; 0])%N = Panic 1%N /\ C38_run ([0; 0], [0])%N = Panic 1%N.
Proof. vm_compute. split; reflexivity. Qed.
