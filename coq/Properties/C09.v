(* C09 Lexical search finds every matching document (recall).
   "If a single-word query occurs as a whole word in the searchable text of k active frames
    and k is at most top_k, search returns hits for all k frames -- with the default options
    and whether or not the fast pre-filter is enabled."

   Statements only; proofs in Proofs/RecallProofs.v.  Model: Model/Recall.v (sketch
   pre-filter and the pipeline of Memvid::search) on top of Model/Sketch.v (C39),
   Model/AsOf.v (C11), Model/SearchPage.v (C16).

   Reading.  M is the list of the k matching frames.  The search engine (Tantivy) is an
   oracle `engine : filter -> limit -> ranked (frame, score)` with the one hypothesis
   engine_recall: every frame of M inside the filter is returned whenever at most `limit`
   frames of M are inside the filter.  `toc` is what the evaluation loop reads per frame;
   `evaluable toc top_k f` says frame f survives it (in the table, parsed.evaluate true: the
   word occurs in its text) and has at least one non-empty in-range snippet.  cf0 is the
   candidate filter built before the sketch stage: None with the default options.

   THE PROPERTY AS STATED IS REFUTED twice by the faithful model, both reproduced on the
   unchanged implementation:
     F-C09-1 sketch-false-negative   (pre-filter on): the SimHash test `hamming <= 32` of
             score_entry rejects the entry of a frame that contains the query word; the
             frame is then not in the candidate filter handed to the engine.
     F-C09-2 snippets-exceed-top-k   (with or without the pre-filter): top_k bounds the
             number of SNIPPETS, a document with several snippets takes several of the
             top_k places and a later matching frame gets no hit although k <= top_k.
   Outside these two classes recall is proved for every corpus, query sketch, score function,
   engine satisfying engine_recall, top_k. *)
From MV Require Import Base.Prelude Base.SortFacts Model.Sketch Model.AsOf Model.SearchPage Model.Recall
  Proofs.SketchFilterProofs Proofs.RecallProofs.
Local Open Scope N_scope.

(* ------------------------------------------------------------------ (1) recall outside the known classes *)
Theorem C09_recall_outside_known :
  forall (S : Type) (score_fn : N -> N -> N -> N -> N -> S) (s_le : S -> S -> bool) (s_zero : S)
         (engine : option (list N) -> N -> list (N * N)) (toc : N -> tocfacts) (combined : N -> Z -> N)
         (es : list entry) (q : qsketch) (top_k : N) (has_text no_sketch : bool)
         (cf0 : option (list N)) (has_lex : bool) (M : list N),
    let rq := mkSreq top_k None has_text no_sketch in
    top_k <= USIZE_MAX ->
    NoDup M -> M <> [] -> len M <= top_k ->          (* top_k <= USIZE_MAX: top_k is a usize *)
    (forall f, In f M -> in_cf cf0 f = true) ->
    engine_recall engine M ->
    (forall f, In f M -> evaluable toc top_k f = true) ->
    known_sketch S score_fn s_le s_zero es q rq cf0 M = false ->
    known_snippets S score_fn s_le s_zero engine toc combined es q rq cf0 = false ->
    exists p, search S score_fn s_le s_zero engine toc combined es q rq cf0 has_lex = Ok (Some p) /\
              forall f, In f M -> In f (hit_frames p).
Proof. exact recall_outside_known. Qed.
Print Assumptions C09_recall_outside_known.

(* ------------------------------------------------------------------ (2) pre-filter disabled *)
(* with no_sketch the sketch class is empty: recall holds for ALL corpora (any sketch track,
   any query sketch) under the engine hypothesis, k <= top_k, outside F-C09-2 only.  The
   engine is asked for doc_limit = max(20, 4 * max(top_k, 1)) >= k documents (no filter with
   the default options), which is why k <= top_k suffices for the engine hypothesis to apply. *)
Theorem C09_recall_no_sketch_outside_known :
  forall (S : Type) (score_fn : N -> N -> N -> N -> N -> S) (s_le : S -> S -> bool) (s_zero : S)
         (engine : option (list N) -> N -> list (N * N)) (toc : N -> tocfacts) (combined : N -> Z -> N)
         (es : list entry) (q : qsketch) (top_k : N) (has_text : bool) (has_lex : bool) (M : list N),
    let rq := mkSreq top_k None has_text true in
    top_k <= USIZE_MAX ->
    NoDup M -> M <> [] -> len M <= top_k ->
    engine_recall engine M ->
    (forall f, In f M -> evaluable toc top_k f = true) ->
    known_snippets S score_fn s_le s_zero engine toc combined es q rq None = false ->
    exists p, search S score_fn s_le s_zero engine toc combined es q rq None has_lex = Ok (Some p) /\
              forall f, In f M -> In f (hit_frames p).
Proof.
  intros. apply recall_outside_known; auto. apply no_sketch_never_drops.
Qed.
Print Assumptions C09_recall_no_sketch_outside_known.

(* ------------------------------------------------------------------ (3) what the sketch class is *)
(* (a) the bloom side cannot cause it: for ANY tokenizer / token hash / weights, the entry
       generate_sketch makes for a text and the sketch from_query makes for a query share a
       set filter bit as soon as text and query share one token (imports C39's
       no-false-negative theorem; term_filter_maybe_overlaps asks for ANY common bit). *)
Theorem C09_bloom_side_never_rejects :
  forall (token : Type) (token_eqb : token -> token -> bool) (hash_token : token -> N),
    (forall a b, token_eqb a b = true -> a = b) ->
    forall (raw_weight : token -> N -> Z) (fid : N) (doc_tokens query_tokens : list token) (v : variant) (t : token),
      (forall t c, (raw_weight t c <= 715827882)%Z) ->
      In t doc_tokens -> In t query_tokens ->
      exists e q, generate_sketch token token_eqb hash_token raw_weight fid doc_tokens v = Ok e /\
                  from_query token token_eqb hash_token query_tokens v = Ok q /\
                  e_frame_id e = fid /\
                  filters_overlap (e_filter e) (q_filter q) = true.
Proof. exact bloom_side_never_rejects. Qed.
Print Assumptions C09_bloom_side_never_rejects.

(* (b) the sketch candidates are exactly the ids of the entries passing
       `overlap && hamming <= 32`, cut to max_candidates = max(500, top_k.saturating_mul(10)) *)
Theorem C09_sketch_candidates_characterised :
  forall (S : Type) (score_fn : N -> N -> N -> N -> N -> S) (s_le : S -> S -> bool) (s_zero : S),
    (forall a b c d e, s_le s_zero (score_fn a b c d e) = true) ->
    forall (q : qsketch) (es : list entry) (maxc : N),
      (forall f, In f (sketch_candidate_ids S score_fn s_le s_zero q es maxc) ->
                 exists e, In e es /\ e_frame_id e = f /\ entry_passes q SKETCH_HAMMING_THRESHOLD e = true) /\
      (len (filter (entry_passes q SKETCH_HAMMING_THRESHOLD) es) <= maxc ->
       forall e, In e es -> entry_passes q SKETCH_HAMMING_THRESHOLD e = true ->
                 In (e_frame_id e) (sketch_candidate_ids S score_fn s_le s_zero q es maxc)) /\
      len (sketch_candidate_ids S score_fn s_le s_zero q es maxc) <= maxc.
Proof.
  intros S score_fn s_le s_zero Hz q es maxc. split; [|split].
  - intros f. apply (candidate_ids_sound _ _ _ _ Hz).
  - intros Hn e. apply (candidate_ids_complete _ _ _ _ Hz); assumption.
  - apply (candidate_ids_bounded _ _ _ _ Hz).
Qed.
Print Assumptions C09_sketch_candidates_characterised.

(* (c) hence the class is empty whenever every matching frame has an entry under its own
       number that passes the test, and no more than max(500, sat(10 * top_k)) entries pass: what
       remains is a Hamming distance above 32, the max_candidates cut, or an entry carrying
       another frame's number (after reopen, see (6)). *)
Theorem C09_sketch_class_needs_failing_entry :
  forall (S : Type) (score_fn : N -> N -> N -> N -> N -> S) (s_le : S -> S -> bool) (s_zero : S),
    (forall a b c d e, s_le s_zero (score_fn a b c d e) = true) ->
    forall (es : list entry) (q : qsketch) (top_k : N) (has_text no_sketch : bool) (cf0 : option (list N)) (M : list N),
      (forall f, In f M -> exists e, In e es /\ e_frame_id e = f /\ entry_passes q SKETCH_HAMMING_THRESHOLD e = true) ->
      len (filter (entry_passes q SKETCH_HAMMING_THRESHOLD) es) <= sketch_max_candidates top_k ->
      known_sketch S score_fn s_le s_zero es q (mkSreq top_k None has_text no_sketch) cf0 M = false.
Proof. intros S score_fn s_le s_zero Hz. apply passing_entries_never_dropped. exact Hz. Qed.
Print Assumptions C09_sketch_class_needs_failing_entry.

(* ------------------------------------------------------------------ (4) refutation, pre-filter on: F-C09-1 *)
(* Real values of the implementation (generate_sketch / QuerySketch::from_query, variant
   Small), see the witness block below: WITNESS_A contains the query word, Hamming
   distance of its SimHash to the query's is above 32; WITNESS_B does not contain it and
   passes.  The candidate set is {1}; the engine, restricted to it, has nothing; frame 0 is
   lost -- while the same request with no_sketch returns it. *)
(* query "gikubak": hash_token = 1112779195657537185 (first 8 bytes of BLAKE3, little endian)
   WITNESS_A = generate_sketch(0, "gikubak widulek wikuhak wiruduk wixaluk", Small, None): Hamming distance 34
   WITNESS_B = generate_sketch(1, "rutabek ruvohak ruvoruk", Small, None): Hamming distance 31, shares a filter bit *)
Definition witness_hash : N := 1112779195657537185.
Definition witness_A : entry :=
  mkEntry 0 6175153369182855145 [0; 0; 32; 16; 66; 0; 0; 8; 42; 1; 0; 16; 129; 32; 8; 4] [1374528617; 1883428121] 500 23 0.
Definition witness_B : entry :=
  mkEntry 1 4764081030674116695 [32; 0; 0; 2; 2; 0; 0; 0; 0; 0; 136; 8; 16; 0; 16; 16] [3228455331; 2830933559] 300 23 0.
Definition witness_q : qsketch :=
  match from_query N N.eqb (fun h => h) [witness_hash] Small with Ok q => q | _ => mkQ 0 [] [] 0 end.
Definition witness_engine := table_engine2 [(0, 1065353216)].
Definition witness_toc (f : N) : tocfacts := mkToc true 0 60 [[(0, 60)]] 0%Z.
Definition witness_combined (s : N) (_ : Z) : N := s.

Theorem C09_recall_refuted_sketch :
  exists (es : list entry) (q : qsketch) (top_k : N) (M : list N),
    NoDup M /\ M <> [] /\ len M <= top_k /\ top_k <= USIZE_MAX /\
    engine_recall witness_engine M /\
    (forall f, In f M -> evaluable witness_toc top_k f = true) /\
    known_snippets unit unit_score unit_le tt witness_engine witness_toc witness_combined es q (mkSreq top_k None true false) None = false /\
    (* the matching frame's own entry fails only the Hamming test *)
    (forall e, In e es -> e_frame_id e = 0 ->
               filters_overlap (e_filter e) (q_filter q) = true /\ 32 < hamming_distance (e_simhash e) (q_simhash q)) /\
    (* pre-filter on: a response without the matching frame *)
    (exists p, search unit unit_score unit_le tt witness_engine witness_toc witness_combined es q (mkSreq top_k None true false) None false = Ok (Some p) /\
               exists f, In f M /\ ~ In f (hit_frames p)) /\
    (* pre-filter off: the frame is returned *)
    (exists p, search unit unit_score unit_le tt witness_engine witness_toc witness_combined es q (mkSreq top_k None true true) None false = Ok (Some p) /\
               forall f, In f M -> In f (hit_frames p)) /\
    known_sketch unit unit_score unit_le tt es q (mkSreq top_k None true false) None M = true.
Proof.
  exists [witness_A; witness_B], witness_q, 10, [0].
  split; [repeat constructor; intros []|].
  split; [discriminate|]. split; [vm_compute; discriminate|]. split; [vm_compute; discriminate|].
  split; [exact (table_engine2_recall [(0, 1065353216)])|].
  split; [intros f [<-|[]]; vm_compute; reflexivity|].
  split; [vm_compute; reflexivity|].
  split.
  { intros e [<-|[<-|[]]] Hid; [|vm_compute in Hid; discriminate].
    split; [vm_compute; reflexivity | vm_compute; reflexivity]. }
  split.
  { eexists. split; [vm_compute; reflexivity|]. exists 0. split; [left; reflexivity|]. vm_compute. intros []. }
  split.
  { eexists. split; [vm_compute; reflexivity|]. intros f [<-|[]]. vm_compute. left. reflexivity. }
  vm_compute. reflexivity.
Qed.
Print Assumptions C09_recall_refuted_sketch.

(* ------------------------------------------------------------------ (5) refutation, pre-filter off: F-C09-2 *)
(* two matching frames, top_k = 2: the better-ranked frame 0 has two snippets, both hits are
   its, frame 1 gets none (the shape of the recorded witness on the implementation) *)
Definition crowd_engine := table_engine2 [(0, 1073741824); (1, 1065353216)].
Definition crowd_toc (f : N) : tocfacts :=
  if f =? 0 then mkToc true 0 317 [[(0, 91)]; [(0, 91); (168, 317)]] 432000%Z
  else mkToc true 0 65 [[(0, 65)]] 1%Z.

Theorem C09_recall_refuted_no_sketch :
  forall (S : Type) (score_fn : N -> N -> N -> N -> N -> S) (s_le : S -> S -> bool) (s_zero : S)
         (es : list entry) (q : qsketch),
  exists (top_k : N) (M : list N),
    NoDup M /\ M <> [] /\ len M <= top_k /\ top_k <= USIZE_MAX /\
    engine_recall crowd_engine M /\
    (forall f, In f M -> evaluable crowd_toc top_k f = true) /\
    known_sketch S score_fn s_le s_zero es q (mkSreq top_k None true true) None M = false /\
    (exists p, search S score_fn s_le s_zero crowd_engine crowd_toc combined_days es q (mkSreq top_k None true true) None false = Ok (Some p) /\
               exists f, In f M /\ ~ In f (hit_frames p)) /\
    known_snippets S score_fn s_le s_zero crowd_engine crowd_toc combined_days es q (mkSreq top_k None true true) None = true.
Proof.
  intros S score_fn s_le s_zero es q. exists 2, [0; 1].
  split; [repeat constructor; [intros [H|[]]; discriminate | intros []]|].
  split; [discriminate|]. split; [vm_compute; discriminate|]. split; [vm_compute; discriminate|].
  split; [exact (table_engine2_recall [(0, 1073741824); (1, 1065353216)])|].
  split; [intros f [<-|[<-|[]]]; vm_compute; reflexivity|].
  split; [apply no_sketch_never_drops|].
  split.
  - exists (mkPage [(0, (0, 91)); (0, (168, 317))] 3 (Some 2)).
    split.
    + unfold search, final_filter, sketch_applies. cbn [r_has_text r_no_sketch r_top_k r_cursor].
      rewrite !andb_false_r. vm_compute. reflexivity.
    + exists 1. split; [right; left; reflexivity|]. vm_compute. intros [H|[H|[]]]; discriminate.
  - unfold known_snippets, evaluated_docs, final_filter, sketch_applies. cbn [r_has_text r_no_sketch r_top_k r_cursor].
    rewrite !andb_false_r. vm_compute. reflexivity.
Qed.
Print Assumptions C09_recall_refuted_no_sketch.

(* ------------------------------------------------------------------ (6) close + reopen *)
(* The on-disk sketch track stores no frame ids (finding F-C39-1): after reopen the entries
   are numbered 0,1,2,.. in file order.  For the tracks Memvid itself builds (variant Small,
   16-byte filters) with ids 0,1,2,.. in insertion order (Sketch.known_ids = false: every
   frame got an entry), the frames whose entries pass the sketch test are the same before and
   after; SimHash and filter survive, only the score (length hint, flags) changes. *)
Theorem C09_reopen_dense_same_passing :
  forall (q : qsketch) (thr : N) (t : track),
    t_variant t = Small ->
    Forall (fun e => length (e_filter e) = 16%nat) (t_entries t) ->
    known_ids t = false ->
    map e_frame_id (filter (entry_passes q thr) (t_entries (reopened t)))
    = map e_frame_id (filter (entry_passes q thr) (t_entries t)).
Proof. exact reopen_dense_same_passing. Qed.
Print Assumptions C09_reopen_dense_same_passing.

(* and when the ids are NOT dense (frame 0 has no entry) the reopened track names the wrong
   frames: the entry of frame 2 passes, is numbered 1 after reopen, frame 2 is no candidate *)
Theorem C09_reopen_sparse_renumbers :
  exists (t : track) (q : qsketch),
    t_variant t = Small /\ Forall (fun e => length (e_filter e) = 16%nat) (t_entries t) /\
    known_ids t = true /\
    sketch_candidate_ids unit unit_score unit_le tt q (t_entries t) 500 = [2] /\
    sketch_candidate_ids unit unit_score unit_le tt q (t_entries (reopened t)) 500 = [1].
Proof.
  exists (mkTrack Small [mkEntry 1 18446744073709551615 (repeat 1 16) [7; 9] 0 7 0;
                         mkEntry 2 0 (repeat 1 16) [7; 9] 0 7 0]),
         (mkQ 0 (repeat 1 16) [7] 1).
  split; [reflexivity|]. split; [repeat constructor|]. vm_compute. repeat split; reflexivity.
Qed.
Print Assumptions C09_reopen_sparse_renumbers.

(* ------------------------------------------------------------------ non-vacuity *)
(* the hypotheses of (1) are met by a non-trivial instance with the pre-filter ON and a
   filter that really removes a frame: three frames, two match and pass the sketch test, the
   third fails it; both matching frames are returned *)
Example C09_hypotheses_satisfiable :
  let es := [mkEntry 0 0 (repeat 1 16) [7] 0 7 0; mkEntry 1 18446744073709551615 (repeat 1 16) [8] 0 7 0;
             mkEntry 2 255 (repeat 1 16) [9] 0 7 0] in
  let q := mkQ 0 (repeat 1 16) [7] 1 in
  let engine := table_engine2 [(2, 1073741824); (0, 1065353216)] in
  let M := [2; 0] in
  let rq := mkSreq 2 None true false in
  NoDup M /\ len M <= 2 /\ engine_recall engine M /\
  (forall f, In f M -> evaluable witness_toc 2 f = true) /\
  known_sketch unit unit_score unit_le tt es q rq None M = false /\
  known_snippets unit unit_score unit_le tt engine witness_toc witness_combined es q rq None = false /\
  final_filter unit unit_score unit_le tt es q true false 2 None = Some [0; 2] /\
  option_map hit_frames
    (match search unit unit_score unit_le tt engine witness_toc witness_combined es q rq None false with
     | Ok p => p | _ => None end) = Some [2; 0].
Proof.
  cbv zeta. split; [repeat constructor; [intros [H|[]]; discriminate | intros []]|].
  split; [vm_compute; discriminate|].
  split; [exact (table_engine2_recall [(2, 1073741824); (0, 1065353216)])|].
  split; [intros f [<-|[<-|[]]]; vm_compute; reflexivity|].
  vm_compute. repeat split; reflexivity.
Qed.

(* the score hypothesis `every score >= min_score 0.0` holds for the score-free instance *)
Example C09_unit_score_zero_least : forall a b c d e, unit_le tt (unit_score a b c d e) = true.
Proof. reflexivity. Qed.
