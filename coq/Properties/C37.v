(* C37 Adaptive retrieval cut-off respects its bounds.
   Statements only.  Model: Model/Adaptive.v (find_adaptive_cutoff, its five strategy helpers and
   normalize_scores of src/types/adaptive.rs, line by line, generic over the score type) and
   Model/AdaptiveF32.v (the binary32 instance on Flocq).  Proofs: Proofs/AdaptiveProofs.v
   (Flocq-free) and Proofs/AdaptiveF32Proofs.v.

   Theorems (1)-(4) quantify over EVERY score type F and EVERY interpretation O of the float
   operations (comparison, + - * /, sqrt, abs, usize->f32, max, min, literals): the index bounds and
   the threshold clauses never depend on what a float is, so they hold in particular for IEEE
   binary32 with NaN, infinities, signed zeros and subnormals.  Their assumption list is empty.

   Theorems (5)-(9) are about binary32 (Flocq) and carry Flocq's four standard-library axioms.
   The normalize clause ("normalized scores lie in [0,1], the maximum is mapped to 1") is REFUTED
   by the faithful model and by the implementation in exactly one class of finite inputs:
     range-overflow   max_score - min_score overflows binary32 (e.g. [3e38, -3e38]): range = +inf,
                      (max - min) / range = inf / inf = NaN
   (known finding F-C37-1); outside that class it is proved. *)
From Flocq Require Import IEEE754.BinarySingleNaN IEEE754.Binary IEEE754.Bits.
From Coq Require Import Reals.
From MV Require Import Base.Prelude Model.Adaptive Model.AdaptiveF32
     Proofs.AdaptiveProofs Proofs.AdaptiveF32Proofs.

(* (1) for any score list and configuration -- all five strategies, normalization on or off, any
       parameters -- the call returns (no panic: `normalized[0]` is in range) and the cut-off lies
       between min(min_results, n) and n *)
Theorem C37_cutoff_within_bounds :
  forall (F : Type) (O : fops F) (scores : list F) (cfg : config F),
    exists c t, find_adaptive_cutoff O scores cfg = Ok (c, t) /\
      (N.min (cfg_min_results cfg) (N.of_nat (length scores)) <= N.of_nat c)%N /\
      (c <= length scores)%nat.
Proof. exact @cutoff_bounds. Qed.
Print Assumptions C37_cutoff_within_bounds.

(* (2) absolute / relative threshold.  `normalized_of` = the scores the strategy sees
       (normalize_scores(scores) or scores); `threshold_of` = min_score, resp.
       normalized[0] * min_ratio computed with the model's multiplication (binary32 in the instance).
       (a) no result kept beyond the first min_results is below the threshold;
       (b) if anything is cut, the first result after the cut-off is below the threshold, and the
           cut-off lies beyond the first min_results.
       With (1): the cut-off is the least index >= min_results whose score is below the threshold,
       or n when there is none. *)
Theorem C37_threshold_clauses :
  forall (F : Type) (O : fops F) (scores : list F) (cfg : config F) (thr : F) (c : nat) (t : N) (d : F),
    threshold_of O (normalized_of O scores cfg) (cfg_strategy cfg) = Some thr ->
    find_adaptive_cutoff O scores cfg = Ok (c, t) ->
    (forall i, (cfg_min_results cfg <= N.of_nat i)%N -> (i < c)%nat ->
               f_ltb O (nth i (normalized_of O scores cfg) d) thr = false) /\
    ((c < length scores)%nat ->
     f_ltb O (nth c (normalized_of O scores cfg) d) thr = true /\ (cfg_min_results cfg <= N.of_nat c)%N).
Proof. exact @threshold_clauses. Qed.
Print Assumptions C37_threshold_clauses.

(* (3) the trigger label of the threshold strategies: "no_cutoff" only when everything is kept *)
Theorem C37_threshold_label :
  forall (F : Type) (O : fops F) (scores : list F) (cfg : config F) (thr : F) (c : nat) (t : N),
    threshold_of O (normalized_of O scores cfg) (cfg_strategy cfg) = Some thr ->
    find_adaptive_cutoff O scores cfg = Ok (c, t) ->
    t = T_NO_RESULTS \/ t = T_MIN_RESULTS \/ t = T_ABSOLUTE_THRESHOLD \/
    (t = T_NO_CUTOFF /\ c = length scores).
Proof. exact @threshold_label. Qed.
Print Assumptions C37_threshold_label.

(* (4) normalize_scores, the float-independent part: the length is preserved, and the all-equal
       branch (range < EPSILON) returns 1.0 everywhere *)
Theorem C37_normalize_shape :
  forall (F : Type) (O : fops F) (scores : list F),
    length (normalize_scores O scores) = length scores /\
    (scores <> [] -> f_ltb O (score_range O scores) (f_eps O) = true ->
     normalize_scores O scores = repeat (f_one O) (length scores)).
Proof. intros F O scores. split; [apply normalize_length | apply normalize_flat]. Qed.
Print Assumptions C37_normalize_shape.

(* (5) binary32: "not below" is "at or above".  For finite scores (and, when normalization is on, a
       range that does not overflow) and a non-NaN threshold, every result kept beyond the first
       min_results has a score >= the threshold.  f32_leb is IEEE `<=`; on finite values it is <= on
       the reals (7). *)
Theorem C37_kept_at_or_above_threshold_f32 :
  forall (scores : list f32) (cfg : config f32) (thr : f32) (c : nat) (t : N) (i : nat),
    all_finite scores = true ->
    (cfg_normalize cfg = true -> range_overflows scores = false) ->
    threshold_of f32ops (normalized_of f32ops scores cfg) (cfg_strategy cfg) = Some thr ->
    f32_is_nan thr = false ->
    find_adaptive_cutoff f32ops scores cfg = Ok (c, t) ->
    (cfg_min_results cfg <= N.of_nat i)%N -> (i < c)%nat ->
    f32_leb thr (nth i (normalized_of f32ops scores cfg) F32_ZERO) = true.
Proof. exact kept_at_or_above_threshold. Qed.
Print Assumptions C37_kept_at_or_above_threshold_f32.

(* (6) the normalize clause, outside the known class.
       normalize_ok scores := the output has the length of the input, every output is a finite
       number in [0,1], and every index holding a maximal score is mapped to exactly 1.
       Holds for every list of finite scores whose max - min does not overflow: any length,
       subnormals, signed zeros, ties, ranges below EPSILON included. *)
Theorem C37_normalize_ok_outside_known :
  forall scores : list f32,
    all_finite scores = true -> range_overflows scores = false -> normalize_ok scores.
Proof. exact normalize_ok_without_overflow. Qed.
Print Assumptions C37_normalize_ok_outside_known.

(* (7) the clause as stated (every list of finite scores) is refuted: [3e38, -3e38] -> [NaN, 0] *)
Theorem C37_normalize_ok_refuted :
  exists scores : list f32, all_finite scores = true /\ ~ normalize_ok scores.
Proof. exact normalize_refuted. Qed.
Print Assumptions C37_normalize_ok_refuted.

Example C37_refutation_witness :
  all_finite overflow_witness = true /\ range_overflows overflow_witness = true /\
  map f32_bits (normalize_scores f32ops overflow_witness) = [2143289344%N; 0%N].   (* [NaN; 0.0] *)
Proof. exact overflow_witness_facts. Qed.

(* (8) reading of the boolean comparisons on finite values *)
Theorem C37_leb_is_real_le :
  forall x y : f32, f32_is_finite x = true -> f32_is_finite y = true ->
                    (f32_leb x y = true <-> (B2R 24 128 x <= B2R 24 128 y)%R).
Proof. exact leb_R. Qed.
Print Assumptions C37_leb_is_real_le.

(* (9) a successful normalization yields finite (hence non-NaN) scores, so (5) applies after it *)
Theorem C37_normalized_scores_finite :
  forall (scores : list f32) (cfg : config f32),
    all_finite scores = true ->
    (cfg_normalize cfg = true -> range_overflows scores = false) ->
    forall y, In y (normalized_of f32ops scores cfg) -> f32_is_finite y = true.
Proof. exact normalized_finite. Qed.
Print Assumptions C37_normalized_scores_finite.

(* (10) the known class is exact: EVERY list of finite scores whose max - min overflows violates the
        clause (the range is +inf, the maximal score is mapped to inf / inf = NaN) -- so with (6),
        for finite scores:  normalize_ok scores <-> range_overflows scores = false *)
Theorem C37_known_class_always_fails :
  forall scores : list f32,
    all_finite scores = true -> range_overflows scores = true -> ~ normalize_ok scores.
Proof. exact normalize_fails_on_overflow. Qed.
Print Assumptions C37_known_class_always_fails.

(* ---- non-vacuity ---- *)
(* the crate's own test vector [1.0, 0.8, 0.6, 0.4, 0.2]: finite, no overflow; normalized to
   [1.0, 0.75, 0.50000006, 0.25, 0.0] *)
Definition sample_scores : list f32 :=
  map f32_of_bits [1065353216; 1061997773; 1058642330; 1053609165; 1045220557]%N.

Example C37_nonvacuous_normalize :
  all_finite sample_scores = true /\ range_overflows sample_scores = false /\
  map f32_bits (normalize_scores f32ops sample_scores) =
  [1065353216; 1061158912; 1056964609; 1048576000; 0]%N.
Proof. vm_compute. repeat split. Qed.

(* absolute threshold 0.5 on the normalized sample, min_results = 1: results 0,1,2 are kept
   (1.0, 0.75, 0.50000006 >= 0.5), the cut-off is 3 and normalized[3] = 0.25 < 0.5 *)
Definition sample_cfg : config f32 := mk_config 1%N true (AbsoluteThreshold (f32_of_bits 1056964608)).

Example C37_nonvacuous_threshold :
  find_adaptive_cutoff f32ops sample_scores sample_cfg = Ok (3%nat, T_ABSOLUTE_THRESHOLD) /\
  threshold_of f32ops (normalized_of f32ops sample_scores sample_cfg) (cfg_strategy sample_cfg)
    = Some (f32_of_bits 1056964608) /\
  f32_is_nan (f32_of_bits 1056964608) = false /\
  f32_ltb (nth 3 (normalized_of f32ops sample_scores sample_cfg) F32_ZERO) (f32_of_bits 1056964608) = true /\
  f32_leb (f32_of_bits 1056964608) (nth 2 (normalized_of f32ops sample_scores sample_cfg) F32_ZERO) = true.
Proof. vm_compute. repeat split. Qed.

(* relative threshold 0.6 without normalization on [1.0, 0.9, 0.8, 0.5, 0.3, 0.1], min_results 2:
   threshold = fl(1.0 * 0.6); cut-off 3 *)
Example C37_nonvacuous_relative :
  let sc := map f32_of_bits [1065353216; 1063675494; 1061997773; 1056964608; 1050253722; 1036831949]%N in
  let cfg := mk_config 2%N false (RelativeThreshold (f32_of_bits 1058642330)) in
  find_adaptive_cutoff f32ops sc cfg = Ok (3%nat, T_ABSOLUTE_THRESHOLD) /\
  option_map f32_bits (threshold_of f32ops (normalized_of f32ops sc cfg) (cfg_strategy cfg)) = Some 1058642330%N.
Proof. vm_compute. repeat split. Qed.

(* the other three strategies reach their mechanisms on the crate's documented examples *)
Example C37_nonvacuous_cliff_elbow_combined :
  let cliff := map f32_of_bits [1065353216; 1064514355; 1063675494; 1062836634; 1061997773; 1050253722; 1048576000; 1045220557]%N in
  let elbow := map f32_of_bits [1065353216; 1064514355; 1063675494; 1062836634; 1061997773; 1056964608; 1056293519; 1055622431; 1054951342; 1054280253]%N in
  find_adaptive_cutoff f32ops cliff (mk_config 1%N true (ScoreCliff (f32_of_bits 1053609165))) = Ok (5%nat, T_SCORE_CLIFF) /\
  find_adaptive_cutoff f32ops elbow (mk_config 1%N true (Elbow F32_ONE)) = Ok (6%nat, T_ELBOW_DETECTION) /\
  find_adaptive_cutoff f32ops cliff (mk_config 1%N true (Combined (f32_of_bits 1056964608) (f32_of_bits 1053609165) (f32_of_bits 1050253722)))
    = Ok (5%nat, T_ABSOLUTE_MIN).
Proof. vm_compute. repeat split. Qed.
