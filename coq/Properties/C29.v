(* C29 Encrypted capsules round-trip exactly and reject tampering.
   Statements only; proofs live in Proofs/CapsuleProofs.v.  Model: Model/Capsule.v
   (lock_file_stream, unlock_file with its dispatch on reserved[0], unlock_file_stream's
   read loop, unlock_file_oneshot, Mv2eHeader encode/decode, per-chunk nonce, write_atomic),
   chunk size a parameter (CHUNK_SIZE = 2^20 satisfies 0 < cs, cs + 16 < 2^32).
   Argon2 = any function kdf; AES-256-GCM = any (enc, dec) with
     dec_enc   : dec k n (enc k n p) = Some p
     enc_len   : |enc k n p| = |p| + 16
     dec_sound : dec k n c = Some p -> c = enc k n p
     enc_bind  : enc k n p = enc k' n' p' -> k = k' /\ n = n'   (ideal: a ciphertext is bound to key and nonce)
   each theorem lists the ones it needs.

   The property as stated is REFUTED by the faithful model (and by the implementation, see
   KNOWN_FINDINGS.json F-C29-1..4): a capsule cut at a record boundary or inside a length
   prefix unlocks to a SHORTER plaintext without error; original_size, reserved[1..3] and
   the last 8 nonce bytes of the header are not authenticated; 1-3 stray bytes at the end
   are ignored; a record can be presented as a one-shot capsule.  What holds: the round
   trip, rejection of forged / misplaced records and of cuts inside a chunk, and --
   outside the truncation class -- that whatever unlock writes is f.

   PARTIAL: C29_unlock_ok_is_f_outside_known covers the streaming path (reserved[0] = 1);
   for the one-shot path only the refutation (downgrade) is stated.  The clause "ANY
   modification makes unlock fail" is proved for the three modification kinds the property
   names that do hold (forged record, misplaced record, cut inside a chunk), not as one
   theorem over all byte strings outside the four known classes. *)
From MV Require Import Base.Prelude Base.Facts Model.Capsule Proofs.CapsuleProofs.
Local Open Scope N_scope.

(* (1) unlock(lock f) = f byte for byte: every .mv2 file (starts with "MV2\0", below 2^64
       bytes), every password, salt, base nonce, chunk size; the destination then holds f. *)
Theorem C29_roundtrip :
  forall (key : Type) (kdf : bytes -> bytes -> key) (enc : key -> bytes -> bytes -> bytes)
         (dec : key -> bytes -> bytes -> option bytes),
    (forall k n p, dec k n (enc k n p) = Some p) ->
    (forall k n p, length (enc k n p) = (length p + TAG_SIZE)%nat) ->
    forall cs pw salt base f,
      0 < cs -> cs + 16 < 2 ^ 32 -> length salt = SALT_SIZE -> length base = NONCE_SIZE ->
      is_mv2 f -> blen f < 2 ^ 64 ->
      b_lock kdf enc cs pw salt base f = Ok (capsule_of kdf enc cs pw salt base f) /\
      b_unlock kdf dec pw (capsule_of kdf enc cs pw salt base f) = Ok f /\
      forall prev, b_unlock_fs kdf dec prev pw (capsule_of kdf enc cs pw salt base f) = Some f.
Proof. exact (@unlock_lock). Qed.
Print Assumptions C29_roundtrip.

(* (2) a failed unlock leaves the destination as it was (write_atomic commits only on Ok) *)
Theorem C29_failed_unlock_writes_nothing :
  forall (key : Type) (kdf : bytes -> bytes -> key) (dec : key -> bytes -> bytes -> option bytes)
         prev pw t e,
    b_unlock kdf dec pw t = Err e -> b_unlock_fs kdf dec prev pw t = prev.
Proof. intros key kdf dec prev pw t e H. unfold b_unlock_fs. rewrite H. reflexivity. Qed.
Print Assumptions C29_failed_unlock_writes_nothing.

(* (3) bit flip in a ciphertext or tag / any replacement of record i by bytes that are not a
       valid ciphertext for position i: Decryption error *)
Theorem C29_forged_record_rejected :
  forall (key : Type) (kdf : bytes -> bytes -> key) (enc : key -> bytes -> bytes -> bytes)
         (dec : key -> bytes -> bytes -> option bytes),
    (forall k n p, dec k n (enc k n p) = Some p) ->
    (forall k n p, length (enc k n p) = (length p + TAG_SIZE)%nat) ->
    (forall k n c p, dec k n c = Some p -> c = enc k n p) ->
    forall cs pw salt base f i c' rest,
      0 < cs -> cs + 16 < 2 ^ 32 -> length salt = SALT_SIZE -> length base = NONCE_SIZE -> blen f < 2 ^ 64 ->
      blen c' < 2 ^ 32 -> (i <= length (the_chunks cs f))%nat ->
      (forall p, c' <> enc (kdf pw salt) (chunk_nonce base (N.of_nat i)) p) ->
      b_unlock kdf dec pw (capsule_header salt base f ++
                           records enc (kdf pw salt) base 0 (firstn i (the_chunks cs f)) ++ frame c' ++ rest)
      = Err E_DECRYPT.
Proof. exact (@forged_record_rejected). Qed.
Print Assumptions C29_forged_record_rejected.

(* (4) chunk reordering, replay, dropping: position i holds the ciphertext of chunk j <> i *)
Theorem C29_misplaced_record_rejected :
  forall (key : Type) (kdf : bytes -> bytes -> key) (enc : key -> bytes -> bytes -> bytes)
         (dec : key -> bytes -> bytes -> option bytes),
    (forall k n p, dec k n (enc k n p) = Some p) ->
    (forall k n p, length (enc k n p) = (length p + TAG_SIZE)%nat) ->
    (forall k n c p, dec k n c = Some p -> c = enc k n p) ->
    (forall k n p k' n' p', enc k n p = enc k' n' p' -> k = k' /\ n = n') ->
    forall cs pw salt base f i j pj rest,
      0 < cs -> cs + 16 < 2 ^ 32 -> length salt = SALT_SIZE -> length base = NONCE_SIZE -> blen f < 2 ^ 64 ->
      (i <= length (the_chunks cs f))%nat -> N.of_nat i < 2 ^ 64 -> N.of_nat j < 2 ^ 64 ->
      nth_error (the_chunks cs f) j = Some pj -> i <> j ->
      b_unlock kdf dec pw (capsule_header salt base f ++
                           records enc (kdf pw salt) base 0 (firstn i (the_chunks cs f)) ++
                           frame (enc (kdf pw salt) (chunk_nonce base (N.of_nat j)) pj) ++ rest)
      = Err E_DECRYPT.
Proof. exact (@misplaced_record_rejected). Qed.
Print Assumptions C29_misplaced_record_rejected.

(* (5) truncation inside a chunk: I/O error *)
Theorem C29_cut_inside_chunk_rejected :
  forall (key : Type) (kdf : bytes -> bytes -> key) (enc : key -> bytes -> bytes -> bytes)
         (dec : key -> bytes -> bytes -> option bytes),
    (forall k n p, dec k n (enc k n p) = Some p) ->
    (forall k n p, length (enc k n p) = (length p + TAG_SIZE)%nat) ->
    forall cs pw salt base f i p x,
      0 < cs -> cs + 16 < 2 ^ 32 -> length salt = SALT_SIZE -> length base = NONCE_SIZE -> blen f < 2 ^ 64 ->
      nth_error (the_chunks cs f) i = Some p ->
      (x < length (enc (kdf pw salt) (chunk_nonce base (N.of_nat i)) p))%nat ->
      b_unlock kdf dec pw (capsule_header salt base f ++
                           records enc (kdf pw salt) base 0 (firstn i (the_chunks cs f)) ++
                           le_encode 4 (blen (enc (kdf pw salt) (chunk_nonce base (N.of_nat i)) p)) ++
                           firstn x (enc (kdf pw salt) (chunk_nonce base (N.of_nat i)) p)) = Err E_IO.
Proof. exact (@cut_inside_chunk_rejected). Qed.
Print Assumptions C29_cut_inside_chunk_rejected.

(* (6) REFUTED, in general form: for EVERY file and every m, the capsule cut after its m-th
       record, plus up to 3 stray bytes, with ANY original_size, reserved[1..3] and nonce tail in
       the header, unlocks without error to the first m chunks only.  (m = all chunks, tail = [],
       same header: the intact capsule.) *)
Theorem C29_truncated_or_edited_capsule_accepted :
  forall (key : Type) (kdf : bytes -> bytes -> key) (enc : key -> bytes -> bytes -> bytes)
         (dec : key -> bytes -> bytes -> option bytes),
    (forall k n p, dec k n (enc k n p) = Some p) ->
    (forall k n p, length (enc k n p) = (length p + TAG_SIZE)%nat) ->
    forall cs pw salt base base' f size r1 r2 r3 m tail,
      0 < cs -> cs + 16 < 2 ^ 32 -> length salt = SALT_SIZE -> length base = NONCE_SIZE ->
      length base' = NONCE_SIZE -> firstn 4 base' = firstn 4 base -> size < 2 ^ 64 ->
      (length tail < 4)%nat ->
      b_unlock kdf dec pw (header_encode (std_header salt base' size [1; r1; r2; r3]) ++
                           records enc (kdf pw salt) base 0 (firstn m (the_chunks cs f)) ++ tail)
      = Ok (concat (firstn m (the_chunks cs f))).
Proof. exact (@truncated_capsule_accepted). Qed.
Print Assumptions C29_truncated_or_edited_capsule_accepted.

(* ---- a concrete (toy) AEAD meeting all four hypotheses: key = byte string,
   enc k n p = p xor-shifted ++ tag, tag = key byte, 12 nonce bytes, checksum, 2 zero bytes *)
Definition toy_kdf (pw salt : bytes) : bytes := [ (fold_left N.add (pw ++ salt) 0) mod 256 ].
Definition toy_mask (k n : bytes) : N := (nth 0 k 0 + fold_left N.add n 0) mod 256.
Definition toy_sum (p : bytes) : N := fold_left N.add p 0 mod 256.
Definition toy_enc (k n p : bytes) : bytes :=
  map (fun b => (b + toy_mask k n) mod 256) p ++ [nth 0 k 0] ++ n ++ [toy_sum p; 0; 0].
Definition toy_dec (k n c : bytes) : option bytes :=
  let l := (length c - 16)%nat in
  let p := map (fun b => (b + 256 - toy_mask k n) mod 256) (firstn l c) in
  if bytes_eqb c (toy_enc k n p) then Some p else None.

Definition salt0 : bytes := repeat 7 32.
Definition base0 : bytes := [1; 2; 3; 4; 5; 6; 7; 8; 9; 10; 11; 12].
Definition pw0 : bytes := [112; 119].
(* a 40-byte .mv2 file; chunk size 16 -> chunks of 16, 16, 8 bytes *)
Definition f0 : bytes := MV2_MAGIC ++ map N.of_nat (seq 10 36).
Definition caps0 : bytes := capsule_of toy_kdf toy_enc 16 pw0 salt0 base0 f0.

Example C29_nonvacuous_roundtrip :
  is_mv2 f0 /\ length (the_chunks 16 f0) = 3%nat /\
  b_lock toy_kdf toy_enc 16 pw0 salt0 base0 f0 = Ok caps0 /\
  b_unlock toy_kdf toy_dec pw0 caps0 = Ok f0 /\ length caps0 = 164%nat.
Proof. vm_compute. repeat split. Qed.

(* (7) REFUTED, witnesses on the model (the same four inputs fail on the implementation):
   (a) cut at the boundary after the first record: Ok, 16 of 40 bytes written;
   (b) cut inside the next length prefix: same;
   (c) original_size, reserved[1..3], nonce tail edited: accepted;
   (d) 3 stray bytes appended: accepted;
   (e) first record presented as a one-shot capsule (reserved[0] = 0, nonce tail = 0,
       original_size = 16): Ok, 16 of 40 bytes written. *)
Definition cut_at (n : nat) := firstn n caps0.
Definition edited_header : bytes :=
  firstn 44 caps0 ++ [9; 9; 9; 9; 9; 9; 9; 9] ++ le_encode 8 12345 ++ [1; 5; 6; 7] ++ skipn 64 caps0.
Definition oneshot_downgrade : bytes :=
  firstn 44 caps0 ++ [0; 0; 0; 0; 0; 0; 0; 0] ++ le_encode 8 16 ++ [0; 0; 0; 0] ++ slice caps0 68 32.

Lemma neq_by_eqb (a b : bytes) : bytes_eqb a b = false -> a <> b.
Proof. intros H E. subst. rewrite MV.Base.Facts.bytes_eqb_refl in H. discriminate. Qed.

Theorem C29_refuted :
  (exists t out, t <> caps0 /\ b_unlock toy_kdf toy_dec pw0 t = Ok out /\ out <> f0) /\
  b_unlock toy_kdf toy_dec pw0 (cut_at 100) = Ok (firstn 16 f0) /\
  b_unlock toy_kdf toy_dec pw0 (cut_at 102) = Ok (firstn 16 f0) /\
  b_unlock toy_kdf toy_dec pw0 (cut_at 64) = Ok [] /\
  (edited_header <> caps0 /\ b_unlock toy_kdf toy_dec pw0 edited_header = Ok f0) /\
  b_unlock toy_kdf toy_dec pw0 (caps0 ++ [1; 2; 3]) = Ok f0 /\
  b_unlock toy_kdf toy_dec pw0 oneshot_downgrade = Ok (firstn 16 f0).
Proof.
  split.
  { exists (cut_at 100), (firstn 16 f0). split; [|split].
    - apply neq_by_eqb. vm_compute. reflexivity.
    - vm_compute. reflexivity.
    - apply neq_by_eqb. vm_compute. reflexivity. }
  split; [vm_compute; reflexivity|].
  split; [vm_compute; reflexivity|].
  split; [vm_compute; reflexivity|].
  split; [split; [apply neq_by_eqb; vm_compute; reflexivity | vm_compute; reflexivity]|].
  split; vm_compute; reflexivity.
Qed.
Print Assumptions C29_refuted.

(* (8) OUTSIDE THE KNOWN CLASS "truncated-at-chunk-boundary" (plaintext clause, streaming path):
   for ANY presented byte string t and password: if t's header decodes with reserved[0] = 1,
   t has at least as many records as f has chunks (known_trunc = false), and no record of t is a
   forgery (each is an issued ciphertext or decrypts under no key and nonce), then an Ok
   answer of unlock wrote exactly f. *)
Definition known_trunc (nrecords_presented nchunks : nat) : bool := (nrecords_presented <? nchunks)%nat.

Theorem C29_unlock_ok_is_f_outside_known_partial :
  forall (key : Type) (kdf : bytes -> bytes -> key) (enc : key -> bytes -> bytes -> bytes)
         (dec : key -> bytes -> bytes -> option bytes),
    (forall k n p, dec k n (enc k n p) = Some p) ->
    (forall k n p, length (enc k n p) = (length p + TAG_SIZE)%nat) ->
    (forall k n c p, dec k n c = Some p -> c = enc k n p) ->
    (forall k n p k' n' p', enc k n p = enc k' n' p' -> k = k' /\ n = n') ->
    forall cs pw salt base f pw' t h body out,
      0 < cs -> length base = NONCE_SIZE -> N.of_nat (length t) < 2 ^ 64 ->
      N.of_nat (length (the_chunks cs f)) < 2 ^ 64 ->
      read_header blen bsplit (@Some bytes) t = Ok (h, body) ->
      nth 0 (h_reserved h) 0 = 1 ->
      (forall c, In c (fst (frames (S (length t)) body)) ->
                 unforged enc dec (kdf pw salt) base (the_chunks cs f) c) ->
      known_trunc (length (fst (frames (S (length t)) body))) (length (the_chunks cs f)) = false ->
      b_unlock kdf dec pw' t = Ok out ->
      out = f.
Proof. exact (@unlock_ok_is_f_outside_truncation). Qed.
Print Assumptions C29_unlock_ok_is_f_outside_known_partial.

(* the hypotheses of (8) are met by a tampered-but-harmless capsule (header edited), and the
   class predicate is true on the refutation witnesses *)
Example C29_outside_known_nonvacuous :
  (exists h body, read_header blen bsplit (@Some bytes) edited_header = Ok (h, body) /\
                  nth 0 (h_reserved h) 0 = 1 /\
                  fst (frames (S (length edited_header)) body) =
                    cts_from toy_enc (toy_kdf pw0 salt0) base0 0 (the_chunks 16 f0) /\
                  known_trunc (length (fst (frames (S (length edited_header)) body))) 3 = false) /\
  known_trunc (length (fst (frames 200 (skipn 64 (cut_at 100))))) 3 = true.
Proof.
  split.
  - exists (std_header salt0 (firstn 4 base0 ++ [9; 9; 9; 9; 9; 9; 9; 9]) 12345 [1; 5; 6; 7]), (skipn 64 edited_header).
    vm_compute. repeat split.
  - vm_compute. reflexivity.
Qed.

(* the toy AEAD meets dec_enc / enc_len on the chunks used above (the theorems need them for all inputs;
   this shows the hypotheses are not contradictory on a concrete instance) *)
Example C29_toy_aead_sane :
  forallb (fun p => match toy_dec [5] base0 (toy_enc [5] base0 p) with
                    | Some q => bytes_eqb p q && Nat.eqb (length (toy_enc [5] base0 p)) (length p + 16)
                    | None => false end)
          (the_chunks 16 f0 ++ [[]; [255; 0; 255]]) = true.
Proof. vm_compute. reflexivity. Qed.
