(* C19 Single-file guarantee.
   Model: Model/SingleFile.v (directory = list of named entries; every API call = its refusal
   check + the directory operations of the staged commits it runs, each ending in one of the
   ten exits with_staging_lock / atomic-write-file have).  Statements only; proofs in
   Proofs/SingleFileProofs.v.

   The property as stated is REFUTED in three narrow classes, recorded as known findings:
     io-leak           a staged commit whose final fsync/renameat fails (or whose fchmod/fchown
                       right after the creation, or whose discarding unlinkat, fails) returns
                       Err and leaves the staging file ".NAME.XXXXXX" behind
     lockfile          memvid_core::lockfile::acquire keeps "NAME.lock" beside the memory while
                       its guard lives
     non-utf8 name     ensure_single_file derives its eight candidates from the EMPTY string
                       when the file name is not valid UTF-8
   and proved outside them. *)
From Coq Require Import String.
From MV Require Import Base.Prelude Model.FsProto Model.SingleFile Proofs.SingleFileProofs.
Require MV.Gen.Consts.
Local Open Scope N_scope.

(* (1) For EVERY initial directory, EVERY history of API calls (create / open / any method of a
   handle with any number of staged commits each ending in any exit / doctor / drop -- open
   (log replay) and drop (commit of a dirty handle) run staged commits too), and EVERY
   prefix of it: outside the two known classes the names in the directory are exactly the
   initial names plus the targets of create. *)
Theorem C19_directory_after_every_call :
  forall (d0 : dir) (h : list api), known_class h = false ->
  forall k, let w := run (world0 d0) (firstn k h) in
  forall n, In n (names (wdir w)) <-> In n (names d0) \/ In n (wcreated w).
Proof. exact single_file_after_every_call. Qed.
Print Assumptions C19_directory_after_every_call.

(* ... where the targets are names the caller passed to create *)
Theorem C19_created_are_create_targets :
  forall (h : list api) (d0 : dir) (n : name), In n (wcreated (run (world0 d0) h)) ->
  exists u c o, In (ACreate n u c o) h.
Proof.
  intros h d0 n H. destruct (created_are_create_targets h (world0 d0) n H) as [[]|E]; exact E.
Qed.
Print Assumptions C19_created_are_create_targets.

(* (2) With OS errors allowed (no lockfile calls): the only other names are the staging files of
   the exits that leak -- no staging name is ever left by any other exit. *)
Theorem C19_only_leaking_exits_leave_names :
  forall (d0 : dir) (h : list api), existsb lockfile_op h = false ->
  let w := run (world0 d0) h in
  forall n, In n (names (wdir w)) <-> In n (names d0) \/ In n (wcreated w) \/ In n (wleaked w).
Proof. exact names_after_history. Qed.
Print Assumptions C19_only_leaking_exits_leave_names.

(* (3) the property as stated, in boolean form, outside the known classes ... *)
Theorem C19_directory_outside_known :
  forall (d0 : dir) (h : list api), known_class h = false -> names_ok d0 (run (world0 d0) h) = true.
Proof. intros d0 h H. apply names_ok_spec. exact (single_file_after_history d0 h H). Qed.
Print Assumptions C19_directory_outside_known.

(* ... and refuted inside each: a commit whose rename fails leaves ".m.mv2.abcdef";
   a lockfile guard keeps "m.mv2.lock". *)
Definition n_m : name := str_bytes "m.mv2".
Definition h_leak : list api :=
  [ACreate n_m true true true; ACall n_m [([str_bytes "abcdef"], XCommitErr)]].
Definition h_lock : list api := [ACreate n_m true true true; ALockfile n_m true].
Theorem C19_directory_after_every_call_refuted :
  (exists d0 h, names_ok d0 (run (world0 d0) h) = false /\ existsb io_leak_op h = true /\ existsb lockfile_op h = false) /\
  (exists d0 h, names_ok d0 (run (world0 d0) h) = false /\ existsb io_leak_op h = false /\ existsb lockfile_op h = true).
Proof.
  split; [exists [], h_leak | exists [], h_lock]; vm_compute; repeat split.
Qed.
Print Assumptions C19_directory_after_every_call_refuted.

Example C19_leak_witness_listing :
  names (wdir (run (world0 []) h_leak)) = [str_bytes "m.mv2"; str_bytes ".m.mv2.abcdef"] /\
  names (wdir (run (world0 []) h_lock)) = [str_bytes "m.mv2"; str_bytes "m.mv2.lock"] /\
  (* the guard dropped: clean again *)
  names (wdir (run (world0 []) (h_lock ++ [AUnlockfile n_m]))) = [str_bytes "m.mv2"].
Proof. vm_compute. repeat split. Qed.

(* (4) refusal: for a file name that is valid UTF-8, ensure_single_file returns Err exactly when
   stat succeeds on one of the eight derived names ... *)
Theorem C19_refusal_iff :
  forall (d : dir) (n : name),
    (ensure_single_file d true n = None <-> forall c, In c (sidecar_names n) -> stat_ok d c = false) /\
    ((exists c, ensure_single_file d true n = Some c) <-> exists c, In c (sidecar_names n) /\ stat_ok d c = true).
Proof. intros d n. split; [apply ensure_single_file_ok_iff | apply ensure_single_file_err_iff]. Qed.
Print Assumptions C19_refusal_iff.

(* ... the error carries the first such name in the order of the two loops ... *)
Theorem C19_refusal_reports_first :
  forall d u n c, ensure_single_file d u n = Some c ->
  exists pre post, candidates u n = pre ++ c :: post /\ stat_ok d c = true /\ forall y, In y pre -> stat_ok d y = false.
Proof. exact ensure_single_file_reports_first. Qed.
Print Assumptions C19_refusal_reports_first.

(* ... create, open (open_read_only, verify) and doctor are refused exactly then, and a refused
   call changes nothing (no directory operation, no handle). *)
Theorem C19_refused_iff :
  forall w a c,
  snd (fst (step w a)) = RRefused c <->
  match a with
  | ACreate p u _ _ | AOpen p u _ _ | ADoctor p u _ => ensure_single_file (wdir w) u p = Some c
  | _ => False
  end.
Proof. exact refused_iff. Qed.
Print Assumptions C19_refused_iff.

Theorem C19_refused_call_changes_nothing :
  forall w a c, snd (fst (step w a)) = RRefused c -> step w a = (w, RRefused c, []).
Proof. exact refused_changes_nothing. Qed.
Print Assumptions C19_refused_call_changes_nothing.

(* known class of the refusal rule: the file name is not valid UTF-8 (to_str() = None ->
   unwrap_or_default() = ""): the candidates no longer depend on the name. *)
Definition n_bad : name := [110; 255; 46; 109; 118; 50].                   (* b"n\xff.mv2" *)
Theorem C19_refusal_refuted :
  exists d n, (exists c, In c (sidecar_names n) /\ stat_ok d c = true) /\ ensure_single_file d false n = None.
Proof.
  exists [(n_bad, KFile); (n_bad ++ str_bytes "-wal", KFile)], n_bad. split.
  - exists (n_bad ++ str_bytes "-wal"). vm_compute. split; [left; reflexivity | reflexivity].
  - vm_compute. reflexivity.
Qed.
Print Assumptions C19_refusal_refuted.

Theorem C19_refusal_non_utf8_blind :
  forall d n, (forall c, In c (sidecar_names []) -> stat_ok d c = false) -> ensure_single_file d false n = None.
Proof. exact non_utf8_blind. Qed.
Print Assumptions C19_refusal_non_utf8_blind.

Theorem C19_refusal_outside_known :
  forall (d : dir) (u : bool) (n : name), negb u = false ->
    (ensure_single_file d u n = None <-> forall c, In c (sidecar_names n) -> stat_ok d c = false).
Proof. intros d [|] n H; [apply ensure_single_file_ok_iff | discriminate]. Qed.
Print Assumptions C19_refusal_outside_known.

(* (5) the suffix lists are the ones in src/memvid/lifecycle.rs now (regenerated each run) *)
Theorem C19_suffix_lists_tied :
  dash_suffixes = map str_bytes MV.Gen.Consts.FORBIDDEN_SIDECAR_SUFFIXES /\
  dot_suffixes = map str_bytes MV.Gen.Consts.HIDDEN_FORBIDDEN_SIDECAR_SUFFIXES.
Proof. exact suffix_lists_tied. Qed.
Print Assumptions C19_suffix_lists_tied.

(* (6) tie to the contents-level protocol of C02/C03: the successful exit is a staged commit
   accepted by Model/FsProto.v's recognizer, and the directory operations of every exit are
   those of its protocol trace *)
Theorem C19_ok_exit_is_staged_commit :
  forall body, only_tmp_writes body = true -> staged_commit_ok (strip_P (proto_of XOk body)) = true.
Proof. exact ok_exit_is_staged_commit. Qed.
Print Assumptions C19_ok_exit_is_staged_commit.

Theorem C19_exit_traces_are_protocol_traces :
  forall p s x body, only_tmp_writes body = true -> flat_map (dop_of p s) (proto_of x body) = strace_of p s x.
Proof. exact strace_is_proto_dir_effect. Qed.
Print Assumptions C19_exit_traces_are_protocol_traces.

(* ---------------------------------------------------------------- non-vacuity *)
(* a directory with an unrelated file, a sidecar of ANOTHER name and a staging-like name that
   collides with the first random draw; two memories; commits that succeed, fail in the closure,
   fail while copying, fail at the directory fsync; doctor; reopen; a failing create. *)
Definition d_ex : dir :=
  [(str_bytes "readme.txt", KFile); (str_bytes "x.mv2-wal", KFile); (str_bytes ".m.mv2.aaaaaa", KFile)].
Definition h_ex : list api :=
  [ACreate n_m true true true;
   ACall n_m [([str_bytes "aaaaaa"; str_bytes "bbbbbb"], XOk)];
   ACall n_m [([str_bytes "cccccc"], XClosureErr); ([str_bytes "dddddd"], XCopyErr)];
   ACreate (str_bytes "o.mv2") true true false;
   ACall n_m [([str_bytes "eeeeee"], XCommitErrDirSync); ([str_bytes "ffffff"], XSyncErr); ([], XPrepareNoFile)];
   AClose n_m [([str_bytes "iiiiii"], XOk)];                                        (* Drop commits a dirty handle *)
   ADoctor n_m true [([str_bytes "gggggg"], XOk); ([str_bytes "hhhhhh"], XReopenErr)];
   AOpen n_m true true [([str_bytes "jjjjjj"], XOk)];                                (* open replays the log through a staged commit *)
   ACall n_m []; AOpen (str_bytes "nope.mv2") true true []].
Example C19_nonvacuous_history :
  known_class h_ex = false /\ names_ok d_ex (run (world0 d_ex) h_ex) = true /\
  names (wdir (run (world0 d_ex) h_ex)) =
    [str_bytes "readme.txt"; str_bytes "x.mv2-wal"; str_bytes ".m.mv2.aaaaaa"; str_bytes "o.mv2"; str_bytes "m.mv2"] /\
  wcreated (run (world0 d_ex) h_ex) = [str_bytes "o.mv2"; str_bytes "m.mv2"] /\
  whandles (run (world0 d_ex) h_ex) = [n_m] /\
  (* the first commit drew the taken name "aaaaaa", retried, and used "bbbbbb" *)
  snd (step (run (world0 d_ex) [ACreate n_m true true true]) (ACall n_m [([str_bytes "aaaaaa"; str_bytes "bbbbbb"], XOk)]))
    = [DCreat (str_bytes ".m.mv2.bbbbbb"); DRename (str_bytes ".m.mv2.bbbbbb") n_m].
Proof. vm_compute. repeat split. Qed.

(* refusal: each of the eight names refuses; a directory or a live link under the name refuses;
   a dangling symbolic link does not (Path::exists follows links); a sidecar of another memory,
   "m.mv2.lock" and a left-over staging file do not. *)
Example C19_nonvacuous_refusal :
  forallb (fun c => match ensure_single_file [(n_m, KFile); (c, KFile)] true n_m with Some c' => name_eqb c c' | None => false end)
          (sidecar_names n_m) = true /\
  length (sidecar_names n_m) = 8%nat /\
  sidecar_names n_m = map str_bytes ["m.mv2-wal"; "m.mv2-shm"; "m.mv2-lock"; "m.mv2-journal";
                                     ".m.mv2.wal"; ".m.mv2.shm"; ".m.mv2.lock"; ".m.mv2.journal"]%string /\
  ensure_single_file [(n_m, KFile); (str_bytes ".m.mv2.lock", KDir)] true n_m = Some (str_bytes ".m.mv2.lock") /\
  ensure_single_file [(n_m, KFile); (str_bytes "m.mv2-shm", KLink true)] true n_m = Some (str_bytes "m.mv2-shm") /\
  ensure_single_file [(n_m, KFile); (str_bytes "m.mv2-shm", KLink false)] true n_m = None /\
  ensure_single_file [(n_m, KFile); (str_bytes "x.mv2-wal", KFile); (str_bytes "m.mv2.lock", KFile); (str_bytes ".m.mv2.abcdef", KFile)] true n_m = None /\
  (* two sidecars: the one tested first is reported *)
  ensure_single_file [(str_bytes ".m.mv2.wal", KFile); (str_bytes "m.mv2-journal", KFile)] true n_m = Some (str_bytes "m.mv2-journal") /\
  (* a refused create makes no file *)
  step (world0 [(str_bytes "m.mv2-wal", KFile)]) (ACreate n_m true true true)
    = (world0 [(str_bytes "m.mv2-wal", KFile)], RRefused (str_bytes "m.mv2-wal"), []).
Proof. vm_compute. repeat split. Qed.
