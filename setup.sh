#!/bin/sh
# Build the framework from files on disk only (offline): full Coq development + harness.
set -e
cd "$(dirname "$0")"
export CARGO_NET_OFFLINE=true
mkdir -p .cache evidence
python3 tools/translate.py >/dev/null || true
( cd coq && coq_makefile -f _CoqProject -o Makefile >/dev/null && timeout 3000 make -j16 2>&1 | tail -5 )
[ -f harness/Cargo.lock ] || cp /repo/Cargo.lock harness/Cargo.lock
( cd harness && RUSTFLAGS="--cfg memvid_verif" cargo build --offline --quiet 2>&1 | tail -5 )
echo setup done
