#!/bin/sh
# tools/runall.sh [tier] : run every claimed check once, print one line per check
cd "$(dirname "$0")/.."
tier=${1:-quick}
for id in $(python3 -c "import json;print(' '.join(c['property_id'] for c in json.load(open('MANIFEST.json'))['checks']))"); do
  s=$(date +%s); ./check $id --tier $tier > .cache/runall_$id.log 2>&1; rc=$?; e=$(date +%s)
  echo "$id rc=$rc $((e-s))s $(grep -c '^KNOWN-FINDING' .cache/runall_$id.log) known; $(grep '^VIOLATION' .cache/runall_$id.log | head -1)"
done
