#!/bin/sh
# tools/seedtest.sh <patch.diff> <PID> [PID...]
# Runs the given checks against a scratch copy of /repo with the patch applied, WITHOUT touching
# /repo or /verif: a git worktree of /repo under /tmp/seedtest_$$/repo and a copy of /verif whose
# harness depends on that worktree.  Prints the last lines of each check.  Removes everything after.
set -e
patch=$(readlink -f "$1"); shift
d=/tmp/seedtest_$$
mkdir -p $d
git -C /repo worktree add -q --detach $d/repo HEAD
( cd $d/repo && git apply -3 "$patch" ) || { echo "PATCH DOES NOT APPLY"; git -C /repo worktree remove --force $d/repo; rm -rf $d; exit 3; }
rsync -a --exclude .git --exclude .cache/work --exclude .cache/tmp --exclude replay --exclude evidence /verif/ $d/verif/ || [ $? -eq 24 ]
sed -i "s|path = \"/repo\"|path = \"$d/repo\"|" $d/verif/harness/Cargo.toml
for id in "$@"; do
  echo "== $id against $(basename $patch)"
  ( cd $d/verif && VERIF_REPO=$d/repo ./check $id 2>&1 | grep -v "^KNOWN-FINDING" | tail -3 | cut -c1-400 )
done
git -C /repo worktree remove --force $d/repo
rm -rf $d
