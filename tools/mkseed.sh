#!/bin/sh
# tools/mkseed.sh <PID> : creates scratch worktree /tmp/seed_<PID> of /repo HEAD and prints the seeder prompt
pid=$1; wt=/tmp/seed_$pid
git -C /repo worktree add -q --detach $wt HEAD
python3 - "$pid" "$wt" <<'PY'
import json,sys
pid,wt=sys.argv[1],sys.argv[2]
t=open('/verif/tools/seed_prompt.txt').read()
for l in open('/verif/properties.jsonl'):
    d=json.loads(l)
    if d['id']==pid:
        text=d['title']+". "+d['statement']
open('/tmp/seed_prompt_%s.txt'%pid,'w').write(t.replace('{WT}',wt).replace('{PID}',pid).replace('{TEXT}',text))
PY
echo /tmp/seed_prompt_$pid.txt
