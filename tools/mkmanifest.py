#!/usr/bin/env python3
"""Writes /verif/MANIFEST.json from tools/props.py and properties.jsonl."""
import json, os, sys
ROOT = os.path.dirname(os.path.dirname(os.path.abspath(__file__)))
sys.path.insert(0, os.path.join(ROOT, "tools"))
from props import PROPS, NOT_APPLICABLE

ids = [json.loads(l)["id"] for l in open(os.path.join(ROOT, "properties.jsonl")) if l.strip()]
checks = []
for pid in ids:
    if pid not in PROPS or PROPS[pid].get('hold'):
        continue
    s = PROPS[pid]
    checks.append({
        "property_id": pid,
        "quick_cmd": "./check %s --tier quick" % pid,
        "thorough_cmd": "./check %s --tier thorough" % pid,
        "evidence_file": "evidence/%s.json" % pid,
        "replay_cmd_template": "./check %s --replay {path}" % pid,
        "engine": "coq+harness",
        "level_claimed": {"category": "proof", "text": s["level_text"], "design_ref": "DESIGN.md section 6, %s" % pid},
        "level_note": s["level_note"],
        "technique": s.get("technique", "Coq theorem over a hand-written executable model + model/implementation correspondence check (vm_compute)"),
    })
na = []
for pid in ids:
    if pid not in PROPS or PROPS[pid].get('hold'):
        na.append({"property_id": pid, "reason": NOT_APPLICABLE.get(pid, "not claimed yet: no model, theorem and correspondence check have been built for this property in this development so far (see DESIGN.md section 6 for the plan)")})
hooks_commits = []
hp = os.path.join(ROOT, "HOOK_COMMITS.txt")
if os.path.exists(hp):
    hooks_commits = [l.split()[0] for l in open(hp) if l.strip() and not l.startswith("#")]
m = {
    "version": 1,
    "setup_cmd": "./setup.sh",
    "hooks": {
        "guard": "memvid_verif",
        "enable": "RUSTFLAGS=\"--cfg memvid_verif\" cargo build --offline (harness crate /verif/harness, path dependency on /repo)",
        "baseline_off_cmd": "cd /repo && cargo test --workspace --no-fail-fast --offline",
        "source_commits": hooks_commits,
        "add_only": True,
    },
    "engines": [
        {"name": "coq", "path": "coq/", "serves_properties": [c["property_id"] for c in checks], "kind_free_text": "Coq 8.16.1 development: executable Gallina models (Model/), proofs (Proofs/), pinned statements (Properties/), correspondence runners (Corr/), constants regenerated from source (Gen/)"},
        {"name": "harness", "path": "harness/", "serves_properties": [c["property_id"] for c in checks], "kind_free_text": "Rust crate linking /repo with --cfg memvid_verif: generates cases, runs the implementation, evaluates the property oracle on its outputs"},
        {"name": "check", "path": "check", "serves_properties": [c["property_id"] for c in checks], "kind_free_text": "driver: translator, coq build + Print Assumptions allowlist, harness, model-vs-implementation comparison by vm_compute, classification, evidence"},
    ],
    "checks": checks,
    "not_applicable": na,
    "notes": "Technique: machine-checked proof in Coq 8.16.1 over hand-written executable models, tied to /repo on every run by a correspondence check and a constants translator. See DESIGN.md.",
}
json.dump(m, open(os.path.join(ROOT, "MANIFEST.json"), "w"), indent=1)
print("checks:", len(checks), "not claimed:", len(na))
