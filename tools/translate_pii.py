#!/usr/bin/env python3
"""Regenerate coq/Gen/PiiPatterns.v (regex AST terms) and coq/Gen/pii_patterns.json (the
pattern strings, read by the harness) from /repo/src/pii.rs: the seven `static X_REGEX`
pattern literals, the order and replacement tokens of the `replace_all` calls in
`mask_pii`, and the order of the `is_match` calls in `contains_pii`.

The regex syntax accepted is the fragment the patterns use (regex crate syntax, Unicode
mode): literals, escapes, bracket classes with ranges / negation / \\d \\s \\w, `.`,
\\b, \\d \\s \\w \\D \\S \\W, groups `( )` `(?: )`, `|`, greedy `? * + {m} {m,} {m,n}`,
and a leading `(?i)`.  Anything else raises Unsupported (the caller falls back to the
committed snapshot and says so)."""
import re, os, sys, json

REPO = os.environ.get("VERIF_REPO", "/repo")
HERE = os.path.dirname(os.path.abspath(__file__))
GEN = os.path.join(HERE, "..", "coq", "Gen")


class Unsupported(Exception):
    pass


# ------------------------------------------------------------------ regex parser
# AST: ("eps",) ("cls", neg, ranges, d, s, w) ("wb",) ("seq", a, b) ("alt", a, b) ("rep", a, lo, ext|None)
ESC_LIT = set(".+*?()[]{}|\\^$-/#&~'\"@%:=!,`;")
KELVIN, LONG_S = 0x212A, 0x17F


def fold_ranges(ranges):
    """simple case folding of a set of ranges restricted to what can involve ASCII letters"""
    out = list(ranges)
    for lo, hi in ranges:
        if hi > 0x7F and not (lo, hi) in ((KELVIN, KELVIN), (LONG_S, LONG_S)):
            raise Unsupported("case-insensitive non-ASCII range %x-%x" % (lo, hi))
        for c in range(max(lo, 0x41), min(hi, 0x5A) + 1):
            out.append((c + 32, c + 32))
        for c in range(max(lo, 0x61), min(hi, 0x7A) + 1):
            out.append((c - 32, c - 32))
        for c in range(lo, min(hi, 0x7F) + 1):
            if c in (0x4B, 0x6B): out.append((KELVIN, KELVIN))
            if c in (0x53, 0x73): out.append((LONG_S, LONG_S))
        if (lo, hi) == (KELVIN, KELVIN): out += [(0x4B, 0x4B), (0x6B, 0x6B)]
        if (lo, hi) == (LONG_S, LONG_S): out += [(0x53, 0x53), (0x73, 0x73)]
    return normalise(out)


def normalise(ranges):
    rs = sorted(set(ranges)); out = []
    for lo, hi in rs:
        if out and lo <= out[-1][1] + 1:
            out[-1] = (out[-1][0], max(out[-1][1], hi))
        else:
            out.append((lo, hi))
    return out


class P:
    def __init__(self, pat):
        self.s = pat; self.i = 0; self.icase = False

    def peek(self, k=0):
        return self.s[self.i + k] if self.i + k < len(self.s) else None

    def eat(self):
        c = self.s[self.i]; self.i += 1; return c

    def parse(self):
        if self.s.startswith("(?i)"):
            self.icase = True; self.i = 4
        r = self.alt()
        if self.i != len(self.s):
            raise Unsupported("unbalanced ')' at %d" % self.i)
        return r

    def alt(self):
        branches = [self.seq()]
        while self.peek() == "|":
            self.eat(); branches.append(self.seq())
        r = branches[-1]
        for b in reversed(branches[:-1]):
            r = ("alt", b, r)
        return r

    def seq(self):
        items = []
        while self.peek() is not None and self.peek() not in "|)":
            items.append(self.rep())
        if not items:
            return ("eps",)
        r = items[-1]
        for a in reversed(items[:-1]):
            r = ("seq", a, r)
        return r

    def rep(self):
        a = self.atom()
        while True:
            c = self.peek()
            if c == "?": self.eat(); a = self.greedy(("rep", a, 0, 1))
            elif c == "*": self.eat(); a = self.greedy(("rep", a, 0, None))
            elif c == "+": self.eat(); a = self.greedy(("rep", a, 1, None))
            elif c == "{":
                m = re.match(r"\{(\d+)(?:(,)(\d*))?\}", self.s[self.i:])
                if not m: raise Unsupported("literal '{' / malformed counted repetition at %d" % self.i)
                self.i += m.end()
                lo = int(m.group(1))
                if m.group(2) is None: ext = 0
                elif m.group(3) == "": ext = None
                else:
                    hi = int(m.group(3))
                    if hi < lo: raise Unsupported("{m,n} with n < m")
                    ext = hi - lo
                if lo > 1000 or (ext or 0) > 1000: raise Unsupported("repetition count too large")
                a = self.greedy(("rep", a, lo, ext))
            else:
                return a

    def greedy(self, r):
        if self.peek() == "?": raise Unsupported("lazy repetition")
        if r[1][0] == "wb": raise Unsupported("repetition of \\b")
        return r

    def mkcls(self, neg, ranges, d=False, s=False, w=False):
        ranges = normalise(ranges)
        if self.icase: ranges = fold_ranges(ranges)
        return ("cls", neg, ranges, d, s, w)

    def atom(self):
        c = self.eat()
        if c == "(":
            if self.peek() == "?":
                if self.s.startswith("?:", self.i): self.i += 2
                else: raise Unsupported("group flags / named group / look-around at %d" % self.i)
            r = self.alt()
            if self.peek() != ")": raise Unsupported("missing ')'")
            self.eat(); return r
        if c == "[": return self.bracket()
        if c == ".": return ("cls", True, [(10, 10)], False, False, False)
        if c in "^$": raise Unsupported("anchor " + c)
        if c in "*+?{": raise Unsupported("dangling repetition operator")
        if c == "\\":
            e = self.eat()
            if e == "b": return ("wb",)
            if e in "dsw": return ("cls", False, [], e == "d", e == "s", e == "w")
            if e in "DSW": return ("cls", True, [], e == "D", e == "S", e == "W")
            if e == "n": return self.mkcls(False, [(10, 10)])
            if e == "t": return self.mkcls(False, [(9, 9)])
            if e == "r": return self.mkcls(False, [(13, 13)])
            if e in ESC_LIT: return self.mkcls(False, [(ord(e), ord(e))])
            raise Unsupported("escape \\" + e)
        return self.mkcls(False, [(ord(c), ord(c))])

    def bracket(self):
        neg = False
        if self.peek() == "^": self.eat(); neg = True
        if self.peek() == "]": raise Unsupported("']' first in a class")
        ranges = []; d = s = w = False
        def one():
            c = self.eat()
            if c == "[": raise Unsupported("nested class / posix class")
            if c == "&" and self.peek() == "&": raise Unsupported("class intersection")
            if c == "~" and self.peek() == "~": raise Unsupported("class symmetric difference")
            if c == "\\":
                e = self.eat()
                if e in "dsw": return ("perl", e)
                if e == "n": return 10
                if e == "t": return 9
                if e == "r": return 13
                if e in ESC_LIT: return ord(e)
                raise Unsupported("escape \\%s in class" % e)
            return ord(c)
        while True:
            if self.peek() is None: raise Unsupported("unterminated class")
            if self.peek() == "]": self.eat(); break
            a = one()
            if isinstance(a, tuple):
                d |= a[1] == "d"; s |= a[1] == "s"; w |= a[1] == "w"; continue
            if self.peek() == "-" and self.peek(1) not in ("]", None):
                if self.peek(1) == "-": raise Unsupported("class difference '--'")
                self.eat(); b = one()
                if isinstance(b, tuple): raise Unsupported("range ending in a perl class")
                if b < a: raise Unsupported("reversed range")
                ranges.append((a, b))
            else:
                ranges.append((a, a))
        return self.mkcls(neg, ranges, d, s, w)


def parse_regex(pat):
    return P(pat).parse()


# ------------------------------------------------------------------ Coq printing
def b(x): return "true" if x else "false"


def coq(r):
    t = r[0]
    if t == "eps": return "REps"
    if t == "wb": return "RWordB"
    if t == "cls":
        return "(RCls (mkCls %s [%s] %s %s %s))" % (b(r[1]), "; ".join("(%d, %d)" % x for x in r[2]), b(r[3]), b(r[4]), b(r[5]))
    if t == "seq": return "(RSeq %s %s)" % (coq(r[1]), coq(r[2]))
    if t == "alt": return "(RAlt %s %s)" % (coq(r[1]), coq(r[2]))
    if t == "rep": return "(RRep %s %d%%nat %s)" % (coq(r[1]), r[2], "None" if r[3] is None else "(Some %d%%nat)" % r[3])
    raise ValueError(t)


def cps(s): return "[" + "; ".join(str(ord(c)) for c in s) + "]"


# ------------------------------------------------------------------ extraction from pii.rs
def fn_body(src, name):
    m = re.search(r"pub\s+fn\s+" + name + r"\s*\([^)]*\)\s*->\s*\w+\s*\{", src)
    if not m: raise Unsupported("fn %s not found" % name)
    i = m.end(); depth = 1
    while depth:
        c = src[i]
        if c == "{": depth += 1
        elif c == "}": depth -= 1
        i += 1
    body = src[m.end():i - 1]
    return re.sub(r"//[^\n]*", "", body)


def extract(src):
    pats = {}
    for m in re.finditer(r"static\s+(\w+)\s*:\s*std::sync::LazyLock<Regex>\s*=\s*std::sync::LazyLock::new\(\|\|\s*\{(.*?)\n\}\);", src, re.S):
        name, body = m.group(1), m.group(2)
        body_nc = re.sub(r"(?m)^\s*//[^\n]*$", "", body)
        lits = re.findall(r"Regex::new\(\s*(?:r#\"(.*?)\"#|r\"([^\"]*)\")\s*,?\s*\)", body_nc, re.S)
        if len(lits) != 1: raise Unsupported("static %s: expected one raw-string Regex::new literal" % name)
        pats[name] = lits[0][0] or lits[0][1]
    if not pats: raise Unsupported("no static regexes found")
    mb = fn_body(src, "mask_pii")
    mask = re.findall(r"(\w+)\s*\.replace_all\(\s*&masked\s*,\s*\"([^\"\\]*)\"\s*\)", mb)
    if len(mask) != len(re.findall(r"replace_all", mb)): raise Unsupported("mask_pii: a replace_all call of unexpected shape")
    if not re.search(r"let\s+mut\s+masked\s*=\s*text\.to_string\(\);", mb) or not re.search(r"\n\s*masked\s*$", mb.rstrip()):
        raise Unsupported("mask_pii: unexpected frame")
    if len(re.findall(r"masked\s*=", mb)) != len(mask) + 1: raise Unsupported("mask_pii: unexpected assignment")
    cb = fn_body(src, "contains_pii")
    cont = re.findall(r"(\w+)\.is_match\(text\)", cb)
    if re.sub(r"\s+", "", cb) != "||".join("%s.is_match(text)" % c for c in cont): raise Unsupported("contains_pii: unexpected shape")
    for nme, tok in mask:
        if nme not in pats: raise Unsupported("unknown regex " + nme)
        if "$" in tok: raise Unsupported("replacement with $ expansion")
    for nme in cont:
        if nme not in pats: raise Unsupported("unknown regex " + nme)
    return pats, mask, cont


def generate(src=None):
    if src is None:
        with open(os.path.join(REPO, "src/pii.rs"), encoding="utf-8") as f: src = f.read()
    pats, mask, cont = extract(src)
    L = ["(* GENERATED by tools/translate_pii.py from /repo/src/pii.rs on every check run. DO NOT EDIT. *)",
         "From MV Require Import Base.Prelude Model.Regex.", "Local Open Scope N_scope.", ""]
    for name in sorted(pats):
        ast = parse_regex(pats[name])
        L.append("Definition %s_src : list N := %s." % (name, cps(pats[name])))
        L.append("Definition %s : regex :=\n  %s." % (name, coq(ast)))
        L.append("")
    L.append("(* mask_pii: the replace_all calls in source order, with their replacement text *)")
    L.append("Definition MASK_ORDER : list (regex * list N) :=\n  [%s]." % ";\n   ".join("(%s, %s)" % (n, cps(t)) for n, t in mask))
    L.append("(* contains_pii: the is_match calls in source order *)")
    L.append("Definition CONTAINS_ORDER : list regex := [%s]." % "; ".join(cont))
    L.append("(* all patterns, sorted by name (indexed by the correspondence stream `spans`) *)")
    L.append("Definition PATTERNS : list regex := [%s]." % "; ".join(sorted(pats)))
    # the parsed ASTs too: the harness samples strings of L(pattern) by walking them
    # ["eps"] ["wb"] ["cls", neg, [[lo,hi]..], d, s, w] ["seq", a, b] ["alt", a, b] ["rep", a, lo, ext|null]
    js = {"patterns": pats, "mask": [[n, t] for n, t in mask], "contains": cont,
          "ast": {n: parse_regex(pats[n]) for n in sorted(pats)}}
    return "\n".join(L) + "\n", js


def write_if_changed(path, text):
    old = open(path, encoding="utf-8").read() if os.path.exists(path) else None
    if old != text:
        os.makedirs(os.path.dirname(path), exist_ok=True)
        with open(path, "w", encoding="utf-8") as f: f.write(text)
        return True
    return False


def run():
    """returns (changed, missing) in the shape translate.py reports"""
    try:
        text, js = generate()
    except (Unsupported, OSError, IndexError) as ex:
        return False, [("PiiPatterns", "src/pii.rs", "regexes", repr(ex))]
    ch = write_if_changed(os.path.join(GEN, "PiiPatterns.v"), text)
    ch |= write_if_changed(os.path.join(GEN, "pii_patterns.json"), json.dumps(js, indent=1, sort_keys=True) + "\n")
    return ch, []


if __name__ == "__main__":
    ch, missing = run()
    print(json.dumps({"changed": ch, "missing": missing, "fallback": bool(missing)}))
