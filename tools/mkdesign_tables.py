#!/usr/bin/env python3
"""Regenerates the machine-written tables of DESIGN.md (between the BEGIN/END markers) from
tools/props.py, KNOWN_FINDINGS.json, seeded/*/meta.json and the last evidence files."""
import json, os, re, sys, glob
ROOT = os.path.dirname(os.path.dirname(os.path.abspath(__file__)))
sys.path.insert(0, os.path.join(ROOT, "tools"))
from props import PROPS
props = [json.loads(l) for l in open(os.path.join(ROOT, "properties.jsonl")) if l.strip()]
kf = json.load(open(os.path.join(ROOT, "KNOWN_FINDINGS.json")))
rows = ["| id | title | theorems | cases / compared (last quick run) | known findings | fixed defects |", "|---|---|---|---|---|---|"]
for p in props:
    pid = p["id"]
    ev = None
    try: ev = json.load(open(os.path.join(ROOT, "evidence", pid + ".json")))
    except Exception: pass
    th = "-"; cs = "-"
    if ev:
        c = ev["coverage"]; th = "%s/%s" % (c.get("discharged"), c.get("obligations")); cs = "%s / %s" % (c.get("evaluations"), c.get("model_vs_impl_cases_compared"))
    kn = ", ".join(f["id"] for f in kf["findings"] if f["property"] == pid) or "-"
    fx = ", ".join(re.findall(r"property=%s (\w+)" % pid, " ".join(kf["fixed"]))) or "-"
    st = "" if pid in PROPS and not PROPS[pid].get("hold") else " (not claimed yet)"
    rows.append("| %s | %s%s | %s | %s | %s | %s |" % (pid, p["title"][:70], st, th, cs, kn, fx))
t1 = "\n".join(rows)
rows = ["| finding | property | class tag | what fails |", "|---|---|---|---|"]
for f in kf["findings"]:
    rows.append("| %s | %s | `%s` | %s |" % (f["id"], f["property"], f.get("class"), f["description"][:260].replace("|", "/")))
t2 = "\n".join(rows)
rows = ["| seeded change | property | what it needs to manifest | caught by |", "|---|---|---|---|"]
for m in sorted(glob.glob(os.path.join(ROOT, "seeded", "*", "meta.json"))):
    d = json.load(open(m)); name = os.path.basename(os.path.dirname(m))
    c = d.get("confirmed_by_lead", {})
    rows.append("| %s | %s | %s | %s |" % (name, d.get("property"), str(d.get("needs_to_manifest", ""))[:200].replace("|", "/").replace("\n", " "), ((c.get("check") or c.get("result") or "not yet run") + "; " + (", ".join(c.get("caught_by")) if isinstance(c.get("caught_by"), list) else str(c.get("caught_by", ""))))[:260].replace("|", "/")))
t3 = "\n".join(rows)
rows = ["| commit | property | what failed before the repair |", "|---|---|---|"]
for x in kf["fixed"]:
    m = re.match(r"fixed: property=(\w+) (\w+) (.*)", x, re.S)
    if m: rows.append("| `%s` | %s | %s |" % (m.group(2), m.group(1), m.group(3)[:330].replace("|", "/").replace("\n", " ")))
t4 = "\n".join(rows)
s = open(os.path.join(ROOT, "DESIGN.md")).read()
for tag, t in (("STATUS", t1), ("FINDINGS", t2), ("SEEDED", t3), ("FIXED", t4)):
    b = "<!-- BEGIN %s -->" % tag; e = "<!-- END %s -->" % tag
    if b in s:
        s = s[:s.index(b) + len(b)] + "\n" + t + "\n" + s[s.index(e):]
open(os.path.join(ROOT, "DESIGN.md"), "w").write(s)
print("tables written")
