#!/bin/sh
# tools/mkbuilder.sh <name>: scratch copy of /verif (with warm build caches) for a builder agent
set -e
d=/tmp/b_$1
rm -rf "$d"; mkdir -p "$d"
rsync -a --exclude .git --exclude .cache/work --exclude replay /verif/ "$d/verif/"
echo "$d/verif"
