"""Per-property configuration of ./check."""

PROPS = {}
NOT_APPLICABLE = {}

PROPS["C31"] = dict(
    corr_module="Corr.C31",
    streams={
        "scan": dict(runner="C31_run", in_t="C31_in", out_t="C31_out", shard=40),
        "decode": dict(runner="C31_decode_run", in_t="bytes", out_t="(option (N * bytes * N))", shard=200),
    },
    level_text="Unbounded theorems over the model of find_last_valid_footer/CommitFooter (any hash function, any byte string): returns exactly the valid footer at the greatest offset, nothing iff none is valid, TOC bytes are those described; model tied to the code by differential runs with real BLAKE3 digests and by regenerated constants.",
    level_note="Trusted: Coq kernel + vm_compute; hand-written model of src/footer.rs (tied by correspondence, 600 buffers/run quick); BLAKE3 abstracted as an arbitrary function; harness and translator.",
    n_quick=480, n_thorough=8000,
    rule="buffers of 0-2500 bytes biased towards 'M'/magic with 0-4 planted footers (valid, wrong hash, toc_len 0, "
         "toc_len>pos, u64::MAX, nested, whole-prefix, magic inside generation, cut short) + random footer-decode inputs; "
         "non-trivial = buffer holds at least one 8-byte magic (scan) / decode accepted (decode); distinct by BLAKE3 of the buffer",
    trusted_base=["BLAKE3 is a Section variable H in the theorems (they hold for every H); in the correspondence run H is the finite table of real digests of all candidate TOC windows"],
    assumptions=["toc_len = 0 is treated as invalid (a TOC is never empty), as the code does"],
    allowed_axioms=[],
)

PROPS["C05"] = dict(
    corr_module="Corr.C05",
    streams={"ops": dict(runner="C05_run", in_t="C05_in", out_t="C05_out", shard=20, imports=["Model.Wal"])},
    n_quick=320, n_thorough=6000,
    rule="op sequences (append/checkpoint/pending/records_after/stats/should_checkpoint/reopen) over fresh regions of 1 B - 64 KiB; "
         "payload sizes aimed to end within +-60 bytes of the region end or exactly at it, whole-region and oversized payloads, empty payloads; "
         "non-trivial = at least one checkpoint and two accepted appends; distinct by digest of (size, ops)",
    level_text="Unbounded refinement theorem over the byte-exact model of EmbeddedWal (any region size, any op list, any hash function): pending_records returns exactly the records appended since the last checkpoint, rejected appends change nothing, reopen-from-header preserves the pending list; model tied to src/io/wal.rs by differential op sequences with real BLAKE3 digests.",
    level_note="Trusted: Coq kernel + vm_compute; hand-written model of src/io/wal.rs (tied by correspondence); BLAKE3 abstracted as an arbitrary function; file I/O modelled as in-range writes to a byte list (short writes / I/O errors not modelled); sequence numbers assumed below 2^64.",
    trusted_base=["BLAKE3 is a Section variable H; in the correspondence run H is the table of real digests of the payloads used",
                  "should_checkpoint's f64 comparison modelled as exact rational comparison (exact for region sizes below 2^50)"],
    assumptions=["no I/O errors or short writes", "fewer than 2^64 appends"],
    allowed_axioms=[],
)

PROPS["C01"] = dict(
    corr_module="Corr.C01",
    streams={"hist": dict(runner="C01_run", in_t="C01_in", out_t="C01_out", shard=4, imports=["Model.Store"])},
    n_quick=28, n_thorough=600,
    harness_timeout=3000,
    rule="adaptive histories of 5-70 ops (put binary/text/chunked, update with/without payload, delete, commit, reopen, exit-without-commit + reopen) on a real memory; "
         "payload sizes aimed with live WAL counters to end within +-60 bytes of the log region end, to cross the 75% auto-checkpoint, and to exceed the region (growth); "
         "non-trivial = the history crossed an automatic checkpoint, a log growth, or ended a record within 48 bytes of the region end; distinct by digest of the op list",
    level_text="Unbounded refinement theorem over the frame-table model of the write path (Model/Store.v, on top of the log specification proved in C05): for every history and every timing of automatic checkpoints / log growth / commit-on-drop / replay, the exposed frames equal the reference table of acknowledged calls; model tied to the code by adaptive histories on real memories that cross checkpoints, growth and the log-region edge, compared op by op and table by table, plus an independent reference table in the harness.",
    level_note="Trusted: Coq kernel + vm_compute; hand-written model of put_internal/update_frame/delete_frame/commit/apply_records/recover_wal at frame-table level (payload bytes abstracted to content tags = BLAKE3 of what the harness put; auto-checkpoint timing, lex-batch record counts and chunk counts are oracle inputs observed on the implementation and universally quantified in the theorem). Partial: updates of DocumentChunk frames are outside the theorem (side condition run_ok).",
    trusted_base=["content identity = BLAKE3 of canonical payload, mapped to tags by the harness", "oracle inputs of each op (auto-checkpoint happened, extra log records, number of chunks) are read from the implementation through cfg(memvid_verif) hooks"],
    assumptions=["no I/O errors", "update/delete targets are Document frames (not chunks)"],
    allowed_axioms=[],
)

PROPS["C06"] = dict(
    corr_module="Corr.C06",
    streams={"hist": dict(runner="C06_run", in_t="C01_in", out_t="C01_out", shard=4, imports=["Model.Store"])},
    n_quick=24, n_thorough=500,
    harness_timeout=3000,
    rule="as C01, plus vacuum and doctor (all 16 option sets, non dry-run) at random points; next_frame_id() read before every put and compared with the id the document gets; "
         "non-trivial = the history crossed an automatic checkpoint, a log growth or ended a record within 48 bytes of the region end; distinct by digest of the op list",
    level_text="Unbounded theorems over the same frame-table model as C01: exposed frames are numbered 0..n-1 by position in every reachable state, next_frame_id equals the number of exposed frames (hence the id the next document gets, chunks following consecutively), and position i keeps the same id/uri/content/role forever; tied to the code by histories with commits, reopen, crash+replay, vacuum and doctor, checking prediction and stability on the implementation.",
    level_note="Trusted as C01. Vacuum and doctor are modelled by their effect on the frame table (a commit / a close+reopen that may reset the log sequence); their byte-level effects belong to C42/C21. Partial: same side condition as C01.",
    trusted_base=["as C01"],
    assumptions=["as C01"],
    allowed_axioms=[],
)

PROPS["C35"] = dict(
    corr_module="Corr.C35",
    streams={
        "slices": dict(runner="C35_run", in_t="C35_in", out_t="C35_out", shard=150),
        "find": dict(runner="C35_find_run", in_t="C35_find_in", out_t="(list (N * N))", shard=200),
    },
    level_text="Unbounded theorems over a line-by-line model of lex::compute_snippet_slices and its helpers (text = any byte list with std's is_char_boundary and str-slicing semantics, occurrences = any list of N pairs, any window, any maximum): with NO hypothesis every returned slice is an in-bounds range on char boundaries whose slicing cannot panic, slices are in order and more than 20 bytes apart, at most max(max,1) of them, all non-empty when window >= 1, and the only panic is end + window/2 overflowing usize; the full property holds under the guard (text empty, or max >= 1, window >= 1, no end + window/2 >= 2^64), the guard equals the complement of three known-finding classes, each conjunct is shown necessary by a witness, and all in-tree call sites (window >= 80, max >= 1, ends < 2^63) are proved to satisfy it. Model tied to the code by differential runs through the verif hook.",
    level_note="Property as stated (arbitrary arguments) is REFUTED in three classes, recorded as known findings (max-zero, window-zero, end-overflow); proved outside them. Trusted: Coq kernel + vm_compute; hand-written model of src/lex.rs (tied by correspondence on ~3000 calls/run quick, exact slice lists or Panic); char_indices modelled as the lead-byte positions of the UTF-8 bytes (equal to std's decoder on well-formed UTF-8, lemma decode_indices_eq); debug-profile overflow semantics; harness.",
    n_quick=2400, n_thorough=30000,
    rule="texts of 0-400 bytes (prose / no sentence stops / dense stops and newlines / mostly 2-4-byte chars / 0-5 bytes / whitespace runs after stops); "
         "occurrences: none, realistic (str::find matches of 1-3 needles, sorted+dedup or sorted by start), call-site arguments (window 80..200, max 1..10), "
         "malformed (unsorted, duplicates, start>end, start=end, mid-character, beyond the text, 2^63, usize::MAX), gap stream (stop-free text, raw windows 18..22 bytes apart), "
         "exact overflow edge (end + window/2 = 2^64-1 / 2^64); windows {0,1,2,3,7,20,41,80,160,400,10^6,usize::MAX-1,usize::MAX, random<60}; maxima {0,1,2,3,5,100,usize::MAX}; "
         "every call under catch_unwind; compared: Panic or the exact slice list, the Coq property oracle vs the harness oracle, the known-class predicate; "
         "second stream: the str::find occurrence loop vs the model's; third stream (implementation oracle only): LexIndexBuilder -> LexIndex::search on 1-3 generated documents (public call site build_snippets(.., 160, 3) and its &content[start..end]): no panic, 1..3 non-empty snippets per hit, each a slice of the document; non-trivial = text and occurrence list both non-empty; distinct by BLAKE3 of the input term",
    trusted_base=["str::char_indices is modelled as the (offset, lead byte) pairs of non-continuation bytes; equal to the std decoder on well-formed UTF-8 (Proofs/SnippetProofs.v decode_indices_eq); str validity is a std invariant",
                  "usize is 64 bits; debug profile (overflow checks on) for `end + window / 2`; in release the add wraps instead of panicking",
                  "collect_token_occurrences has no hook: its find loop is re-implemented in the harness with str::find and compared with the model's (stream find)"],
    assumptions=["guard for the full property: text empty, or max_snippets >= 1 and window >= 1 and every occurrence end + window/2 < 2^64 (each conjunct proved necessary)",
                 "content.len() <= isize::MAX so `last.1 + 20` cannot overflow (every stored end is proved <= len)"],
    allowed_axioms=[],
)

PROPS["C39"] = dict(
    corr_module="Corr.C39",
    streams={
        "filter": dict(runner="C39_filter_run", in_t="C39_filter_in", out_t="C39_filter_out", shard=150),
        "contains": dict(runner="C39_contains_run", in_t="(bytes * N)", out_t="(outcome bool)", shard=300),
        "sketch": dict(runner="C39_sketch_run", in_t="C39_sketch_in", out_t="C39_sketch_out", shard=40),
        "idf": dict(runner="C39_idf_run", in_t="C39_idf_in", out_t="C39_sketch_out", shard=40),
        "track": dict(runner="C39_track_run", in_t="C39_track_in", out_t="C39_track_out", shard=60),
        "read": dict(runner="C39_read_run", in_t="C39_read_in", out_t="(outcome (N * list entry_t))", shard=100),
    },
    level_text="Unbounded theorems over the model of src/types/sketch_track.rs. Filter: for every hash list, every filter size but 0 and every hash of the list, build_term_filter then term_filter_maybe_contains answers true (bit level: set then test at the same index, OR never clears a bit), lifted to generate_sketch for any tokenizer, any token hash and any text (no panic, every token of the text reported present). Track: read(write t) is computed exactly for every track (entries renumbered 0.. and forced into the on-disk layout); the round trip as stated is refuted (Small entry for frame 3 comes back as frame 0, flags 23 -> 7, weight sum lost) and proved for every track outside known_class, which is shown to be exact (round-trips iff outside).",
    level_note="Trusted: Coq kernel + vm_compute; hand-written model tied by differential runs (filter bytes, weights, simhash, top terms, written bytes, read-back tracks, error kinds on damaged bytes); tokenizer (NFKC, lower-casing, is_alphanumeric), BLAKE3 hash_token and the f32 weight formula are Section variables (the theorems hold for every choice); debug-profile overflow semantics. The track round trip is a known finding (F-C39-1..3), not repaired: the format stores no frame ids, Large is stored as Medium, Small has no room for flags/weight/length.",
    n_quick=420, n_thorough=6000,
    rule="filter: 0-40 hashes (random, 0, MAX, <2^16, <2^32, lanes next to multiples of the bit count, single bits) into filters of 0,1-7,16,32,64,1-100 bytes, probed with every added hash plus one-bit neighbours and fresh hashes; "
         "sketch: texts of 0-2570 tokens (edges at 49-51 and 2535-2570) over per-text vocabularies incl. Unicode (NFKC ligatures, full-width, combining marks, CJK, dotted I), one-character words and skewed repeats, all three variants; "
         "idf: the same texts with an idf map whose values make the f32 weight formula exact (small dyadic fractions, values below the 0.1 clamp, sums beyond the u16 cap, weights near and beyond the u32 sum overflow); "
         "track: 0-19 entries made by generate_sketch / hand-built in and out of the on-disk shape, ids dense, re-inserted, offset, permuted, sparse, duplicate, with gaps, written after 0-39 noise bytes and followed by 0-39; "
         "read: written tracks with damaged magic, entry size, count (incl. overflowing), version, truncation, wrong offset/length, random bytes; "
         "non-trivial = filter non-empty with hashes / text has tokens / track has entries / read reached a verdict on a header; distinct by BLAKE3 of the input",
    trusted_base=["tokenizer, hash_token (BLAKE3) and the f32 weight formula are Section variables in the theorems; in the correspondence run the tokens are the real tokenizer's output and hash_token is the finite table of real hashes of those tokens",
                  "integer overflow modelled as in the debug profile (panic); the release profile wraps"],
    assumptions=["filter size 0 is excluded (the code divides by zero; the variants use 16, 32, 64)",
                 "weights are i32 values of at most 715827882 so that six of them fit the u32 sum (idf_map = None gives 100..300)",
                 "track fields fit their Rust types and 24 + 96 * entries < 2^64 (track_wf)",
                 "track round trip: known finding outside which the theorem holds (known_class = ids not 0..n-1 in insertion order, or filter/top-term vectors not of the on-disk size, or Small entry with weight sum / flags <> 7 / length hint)"],
    allowed_axioms=[],
)

PROPS["C32"] = dict(
    corr_module="Corr.C32",
    streams={
        "parse": dict(runner="C32_parse_run", in_t="C32_parse_in", out_t="C32_parse_out", shard=150, imports=["Model.Query"]),
        "eval": dict(runner="C32_eval_run", in_t="C32_eval_in", out_t="C32_eval_out", shard=60),
        "nest": dict(runner="C32_nest_run", in_t="C32_nest_in", out_t="C32_nest_out", shard=30),
    },
    level_text="Unbounded theorems over the model of Lexer/Parser/from_word/evaluate (any query text, any is_alphanumeric and date oracle): "
               "tokenize and parse never run out of fuel with fuel = |text| resp. 4|tokens|+4 and return Ok or InvalidQuery, and the parser's stack depth "
               "(a computed output of the model) is at most 4*MAX_QUERY_DEPTH+4 = 260 frames for every text (MAX_QUERY_DEPTH regenerated from parser.rs). "
               "Semantics: the evaluator reflects the reference semantics (OR = some, AND = all, NOT = negation, substring words/phrases, case-insensitive "
               "field terms), and for every well-formed expression whose printed nesting fits under the limit, the text printed with minimal parentheses "
               "(NOT > AND > OR, explicit or implicit AND) parses to an expression with the same match decision on every document.",
    level_note="Trusted: Coq kernel + vm_compute; hand-written model of src/search/parser.rs and src/search/mod.rs (tied by correspondence on ~1280 texts + "
               "400 printed ASTs x 6 documents + 270 nesting runs in child processes per quick run); char::is_alphanumeric and parse_date_value are oracles "
               "(Section variables, instantiated by tables computed by the real implementation); the regex crate is modelled by a glob matcher (tested, not "
               "proved against regex); dates are excluded from the printer round trip; frame sizes and the real stack limit are outside the model (the model "
               "bounds the number of nested frames).",
    n_quick=1200, n_thorough=20000,
    rule="parse: random text over the token alphabet ( ) \" : AND OR NOT (both cases), known/unknown field prefixes in mixed case, quoted values, date:[a TO b] "
         "well- and ill-formed, wildcards, punctuation, all 25 Unicode White_Space code points and near misses, non-ASCII letters/digits/marks, structured "
         "(operators in place, balanced parentheses, one random edit) and unstructured, plus 44 fixed edge cases, 36 fixed and ~6% random texts nesting 60-68 "
         "levels of ( / NOT / mixed around MAX_QUERY_DEPTH; non-trivial = at least two words or a parenthesis or a colon. eval: random ASTs of depth <= 5 "
         "(OR/AND/NOT, words, phrases, wildcards, five field kinds, date ranges) printed with minimal parentheses and random surface (explicit/implicit AND, "
         "keyword case, spacing, redundant parentheses, quoted/unquoted values), each on 6 random documents; non-trivial = operators nested under a different "
         "operator and 1-5 of the 6 documents match. nest: 15 nesting shapes x sizes 0..60000 (dense around 32 and 64) in a child process; a death of the child "
         "is a violation, nesting above the limit must give InvalidQuery 'query nesting too deep', at or below it must not; non-trivial = size >= 10. "
         "Distinct by BLAKE3 of the text (+contents).",
    trusted_base=["char::is_alphanumeric and parse_date_value are Section variables in the theorems (they hold for every instance); in the correspondence run they are finite tables produced by the real functions",
                  "regex crate: WildcardPattern's regex is modelled as an anchored glob matcher in which * and ? do not match a newline (compared on every wildcard case, not proved)",
                  "Parser::depth (struct field, incremented by enter(), decremented after the recursive call) is modelled as a parameter passed down: equal because every Ok path undoes its own increment and every Err aborts the parse"],
    assumptions=["default cargo features (temporal_track off: anchor_ts is not a date candidate)",
                 "wildcard patterns short enough that Regex::new does not hit its size limit (otherwise the code silently falls back to the regex ^$)",
                 "the printer round trip covers expressions without date ranges (date text goes through the parse_date_value oracle only in the correspondence run)",
                 "like the code, the model ignores tokens left after the first complete expression (e.g. 'a ) b' parses as 'a')",
                 "evaluate() and Drop recurse over the AST; its depth is at most MAX_QUERY_DEPTH (only NOT nests in the AST beyond one level per parenthesis), exercised by the nest stream, not modelled as frames"],
    allowed_axioms=[],
)

PROPS["C34"] = dict(
    corr_module="Corr.C34",
    streams={
        "manifest": dict(runner="C34_manifest_run", in_t="C34_manifest_in", out_t="C34_manifest_out", shard=40),
        "plan": dict(runner="C34_plan_run", in_t="C34_plan_in", out_t="C34_plan_out", shard=6),
        "structured": dict(runner="C34_struct_run", in_t="C34_struct_in", out_t="C34_struct_out", shard=6),
    },
    level_text="Unstructured half: unbounded theorems over the model of build_chunk_manifest/choose_chunk_boundary/slice_text_range/plan_naive_chunks/plan_text_chunks (any text over any character type, any three character tests, any chunk size > 0): the loop terminates without panic, the ranges are contiguous from 0 to the character count and non-empty, the chunk texts are non-empty and concatenate to the text, every range is at most chunk size + slack long; model tied to the code by differential runs comparing exact ranges and chunk strings. Structured half PARTIAL: unbounded theorem over the model of StructuralChunker::chunk (any element list, any max_chars): every rendered string handed to the chunker is inside some chunk and table splitting loses no row; the coverage clause as stated is refuted (8 known classes) and proved outside the known class; the detector is an oracle.",
    level_note="Trusted: Coq kernel + vm_compute; hand-written models of src/memvid/chunks.rs and src/structure/chunker.rs (tied by correspondence on exact ranges / chunk texts); char::is_whitespace modelled as the Unicode White_Space code point set; normalize_text, detect_structure and the format() renderers are oracles (their outputs are inputs of the models); harness and translator. Structured half is PARTIAL: no model of detect_structure, so the relation between the lines of the normalized text and the elements is an input (checked per case by the harness); 'no chunk is empty' for structured plans is checked by the oracle on the implementation only.",
    n_quick=320, n_thorough=6000,
    rule="manifest: raw texts of 0-1900 characters over {newline, .!?, 20 kinds of Unicode whitespace, look-alike non-boundaries, letters/multi-byte} in 9 styles "
         "(mixed, no newline, whitespace only, no boundary at all, terminal-dense, newline-dense, sparse, prose, marks planted at the edges of the first window) with explicit "
         "chunk sizes 0..420 and 0/len-1/len/len+1/usize::MAX; plan: prose of 0-11000 characters through plan_text_chunks (newline density none..every 20 chars, CRLF, tabs, "
         "double spaces, whitespace-free runs longer than chunk+slack, no terminals, exact normalized lengths 2398..2402/2640/2641); structured: markdown documents with tables of 0-230 rows, "
         "code fences of 1-200 lines, lists, headings, rules, one witness per known class, documents built to sit on the chunker's comparisons (table of exactly 1200/1201 chars, "
         "paragraph/list overflow at 1200/1201, rows-per-chunk divisor, pending heading kept/dropped); non-trivial = a plan with at least two ranges/chunks was returned; distinct by BLAKE3 of the text and chunk size",
    trusted_base=["normalize_text (NFKC, whitespace collapsing) is an oracle: the plan model takes its output",
                  "detect_structure (regex heuristics) and heading/list/code/table format() are oracles: has_structure and the element list with rendered strings are inputs",
                  "char::is_whitespace = Unicode White_Space set written out in Model/Chunks.v (the theorems hold for any predicate)"],
    assumptions=["start + chunk_chars and target + slack do not overflow usize (chunk_chars < total <= text length whenever the loop runs)",
                 "structured half: 'a line appears in a chunk' is read as: the trimmed line is a substring of some chunk text",
                 "structured half: chunk char offsets (ranges of a structured plan) are not modelled; the property does not mention them"],
    allowed_axioms=[],
)

PROPS["C36"] = dict(
    corr_module="Corr.C36",
    streams={
        "mask": dict(runner="C36_run", in_t="C36_in", out_t="C36_out", shard=250, imports=["Model.Pii"]),
        "spans": dict(runner="C36_spans_run", in_t="C36_spans_in", out_t="C36_spans_out", shard=600),
    },
    n_quick=1500, n_thorough=40000,
    level_text="Unbounded theorems over a regex-AST model of src/pii.rs (backtracking matcher in the regex crate's leftmost-first order, find_iter/replace_all, mask_pii = the seven replace_all passes, contains_pii = any is_match; the seven patterns, the pass order, the tokens and the is_match order are regenerated from the source on every run; every theorem holds for all texts and all Unicode tables): the matcher is sound and complete for a declarative language semantics (is_match r s iff some substring of s is in L(r), \\b read against the neighbouring code points) for every regex of the AST; replace_all without a match is the identity for every regex; text in which contains_pii detects nothing is returned unchanged (third sentence, full strength). 'Nothing detectable remains' and idempotence are REFUTED (\"1234567890123456789\" -> \"123456789[PHONE]\", still detected, second pass differs) and proved for every text outside known_class, which is shown exact; the underlying theorem: for any list of passes, a match that survives has in its window (code point before, match, code point after) a code point inserted by its own or a later pass. No replacement token is detected by itself.",
    level_note="First two sentences of the property are REFUTED by the unchanged implementation; recorded as known finding F-C36-1 (class token-boundary-rematch), proved outside it. 'No substring that contains_pii detects' is read as contains_pii(mask_pii(x)) = false (contains_pii examines every substring in its context: theorem 1). Trusted: Coq kernel + vm_compute; hand-written model of the regex crate's matching order and find_iter/replace_all (tied by correspondence: per-pattern is_match and match spans against the regex crate on the translator-extracted pattern strings, and contains_pii / mask_pii / contains_pii(mask_pii) / idempotence / class against the public API); tools/translate_pii.py (regex syntax -> AST, incl. (?i) simple case folding of ASCII letters with U+212A and U+017F); Unicode tables for \\d \\s \\w are parameters (in the correspondence run: ASCII below 128, and for the non-ASCII code points of a case the regex crate's own answers); the refutation witness and the token facts are computed with the ASCII tables.",
    rule="texts of 0-170 code points assembled from 0-7 fragments joined by ' ' '' ',' '-' '.' newline ':' '/' '(' ')' '+' '_' '@' '=': digit material (SSN / phone / 7-digit phone / 16-digit and Amex cards with - . space or no separators, plain runs of 3-20 digits, runs of 17-25 and glued 7+10 / 9+10 digit runs, random groupings of 1-10 digit groups with - . space ( ) + tab separators and +1 / ( prefixes), emails with empty / punctuation-only local parts, odd domains, TLDs of 1-5 characters incl. '|' and digits, '@@', missing dot, trailing word characters), dotted quads of 3-6 octets from {0,1,9,...,255,256,260,299,300,999,01,001,0001,00,1234} with '.', '..', ',' separators, key material (sk_live_/pk_test_ + 20-30, ghp_/gho_/ghx_ + 34-38, AKIA + 14-18, api_key/api-key/apikey/api key with = : spaces quotes + 17-26, random case flips, KELVIN SIGN for k, LONG S for s, a leading word character), dotted tokens of 37-46 + 4-9 + 4-9 characters, filler words, non-ASCII fillers (e-acute, em dash, CJK, Arabic-Indic and full-width digits, NBSP, EM SPACE, ZWJ, beta) and the seven replacement tokens themselves; eight fixed texts first (the two known-finding witnesses, the doc-test example, the empty text, unit-test negatives, token-only texts). Stream mask: contains_pii(x), mask_pii(x), contains_pii(mask_pii(x)), mask_pii(mask_pii(x)) == mask_pii(x), known class. Stream spans: for every pattern that matches the text plus a random one on every third text: is_match and the find_iter spans of the regex crate on the extracted pattern string. Non-trivial = something is detected or the text is changed (mask) / at least one span (spans); distinct by BLAKE3 of the text (and pattern index).",
    trusted_base=["Unicode tables for \\d \\s \\w/\\b are Section variables in the theorems; in the correspondence run they are ASCII below 128 and, for the non-ASCII code points of the case, what the regex crate itself answers",
                  "the pattern strings used by the harness's own regex objects are the ones tools/translate_pii.py extracted from src/pii.rs in this run (coq/Gen/pii_patterns.json), not a re-declaration; mask_pii / contains_pii are called only through the public API",
                  "the model's treatment of empty matches in replace_all follows the crate's find_iter rule but is not exercised: none of the seven patterns can match the empty string"],
    assumptions=["known finding outside which sentences 1-2 hold: known_class x = after the seven passes some pattern has a match whose window (code point before, match, code point after) holds a code point inserted by the same or a later pass; proved exact (in the class iff something is still detected)",
                 "the lists regenerated from the source must satisfy: mask_pii replaces exactly the patterns contains_pii tests, no replacement token is empty (theorem C36_generated_lists_consistent, re-proved on every run)",
                 "replacement tokens contain no '$' (checked by the translator), so replace_all inserts them literally"],
    allowed_axioms=[],
)
