"""Per-property configuration of ./check."""

PROPS = {}
NOT_APPLICABLE = {}

PROPS["C31"] = dict(
    corr_module="Corr.C31",
    streams={
        "scan": dict(runner="C31_run", in_t="C31_in", out_t="C31_out", shard=40),
        "decode": dict(runner="C31_decode_run", in_t="bytes", out_t="(option (N * bytes * N))", shard=200),
    },
    level_text="Unbounded theorems over the model of find_last_valid_footer/CommitFooter (any hash function, any byte string): returns exactly the valid footer at the greatest offset, nothing iff none is valid, TOC bytes are those described; model tied to the code by differential runs with real BLAKE3 digests and by regenerated constants.",
    level_note="Trusted: Coq kernel + vm_compute; hand-written model of src/footer.rs (tied by correspondence, 600 buffers/run quick); BLAKE3 abstracted as an arbitrary function; harness and translator.",
    n_quick=480, n_thorough=8000,
    rule="buffers of 0-2500 bytes biased towards 'M'/magic with 0-4 planted footers (valid, wrong hash, toc_len 0, "
         "toc_len>pos, u64::MAX, nested, whole-prefix, magic inside generation, cut short) + random footer-decode inputs; "
         "non-trivial = buffer holds at least one 8-byte magic (scan) / decode accepted (decode); distinct by BLAKE3 of the buffer",
    trusted_base=["BLAKE3 is a Section variable H in the theorems (they hold for every H); in the correspondence run H is the finite table of real digests of all candidate TOC windows"],
    assumptions=["toc_len = 0 is treated as invalid (a TOC is never empty), as the code does"],
    allowed_axioms=[],
)

PROPS["C05"] = dict(
    corr_module="Corr.C05",
    streams={"ops": dict(runner="C05_run", in_t="C05_in", out_t="C05_out", shard=20, imports=["Model.Wal"])},
    n_quick=320, n_thorough=6000,
    rule="op sequences (append/checkpoint/pending/records_after/stats/should_checkpoint/reopen) over fresh regions of 1 B - 64 KiB; "
         "payload sizes aimed to end within +-60 bytes of the region end or exactly at it, whole-region and oversized payloads, empty payloads; "
         "non-trivial = at least one checkpoint and two accepted appends; distinct by digest of (size, ops)",
    level_text="Unbounded refinement theorem over the byte-exact model of EmbeddedWal (any region size, any op list, any hash function): pending_records returns exactly the records appended since the last checkpoint, rejected appends change nothing, reopen-from-header preserves the pending list; model tied to src/io/wal.rs by differential op sequences with real BLAKE3 digests.",
    level_note="Trusted: Coq kernel + vm_compute; hand-written model of src/io/wal.rs (tied by correspondence); BLAKE3 abstracted as an arbitrary function; file I/O modelled as in-range writes to a byte list (short writes / I/O errors not modelled); sequence numbers assumed below 2^64.",
    trusted_base=["BLAKE3 is a Section variable H; in the correspondence run H is the table of real digests of the payloads used",
                  "should_checkpoint's f64 comparison modelled as exact rational comparison (exact for region sizes below 2^50)"],
    assumptions=["no I/O errors or short writes", "fewer than 2^64 appends"],
    allowed_axioms=[],
)

PROPS["C01"] = dict(
    corr_module="Corr.C01",
    streams={"hist": dict(runner="C01_run", in_t="C01_in", out_t="C01_out", shard=4, imports=["Model.Store"])},
    n_quick=28, n_thorough=600,
    harness_timeout=3000,
    rule="adaptive histories of 5-70 ops (put binary/text/chunked, update with/without payload, delete, commit, reopen, exit-without-commit + reopen) on a real memory; "
         "payload sizes aimed with live WAL counters to end within +-60 bytes of the log region end, to cross the 75% auto-checkpoint, and to exceed the region (growth); "
         "non-trivial = the history crossed an automatic checkpoint, a log growth, or ended a record within 48 bytes of the region end; distinct by digest of the op list",
    level_text="placeholder",
    level_note="placeholder",
    trusted_base=[],
    assumptions=[],
    allowed_axioms=[],
)

PROPS["C35"] = dict(
    corr_module="Corr.C35",
    streams={
        "slices": dict(runner="C35_run", in_t="C35_in", out_t="C35_out", shard=150),
        "find": dict(runner="C35_find_run", in_t="C35_find_in", out_t="(list (N * N))", shard=200),
    },
    level_text="Unbounded theorems over a line-by-line model of lex::compute_snippet_slices and its helpers (text = any byte list with std's is_char_boundary and str-slicing semantics, occurrences = any list of N pairs, any window, any maximum): with NO hypothesis every returned slice is an in-bounds range on char boundaries whose slicing cannot panic, slices are in order and more than 20 bytes apart, at most max(max,1) of them, all non-empty when window >= 1, and the only panic is end + window/2 overflowing usize; the full property holds under the guard (text empty, or max >= 1, window >= 1, no end + window/2 >= 2^64), the guard equals the complement of three known-finding classes, each conjunct is shown necessary by a witness, and all in-tree call sites (window >= 80, max >= 1, ends < 2^63) are proved to satisfy it. Model tied to the code by differential runs through the verif hook.",
    level_note="Property as stated (arbitrary arguments) is REFUTED in three classes, recorded as known findings (max-zero, window-zero, end-overflow); proved outside them. Trusted: Coq kernel + vm_compute; hand-written model of src/lex.rs (tied by correspondence on ~3000 calls/run quick, exact slice lists or Panic); char_indices modelled as the lead-byte positions of the UTF-8 bytes (equal to std's decoder on well-formed UTF-8, lemma decode_indices_eq); debug-profile overflow semantics; harness.",
    n_quick=2400, n_thorough=30000,
    rule="texts of 0-400 bytes (prose / no sentence stops / dense stops and newlines / mostly 2-4-byte chars / 0-5 bytes / whitespace runs after stops); "
         "occurrences: none, realistic (str::find matches of 1-3 needles, sorted+dedup or sorted by start), call-site arguments (window 80..200, max 1..10), "
         "malformed (unsorted, duplicates, start>end, start=end, mid-character, beyond the text, 2^63, usize::MAX), gap stream (stop-free text, raw windows 18..22 bytes apart), "
         "exact overflow edge (end + window/2 = 2^64-1 / 2^64); windows {0,1,2,3,7,20,41,80,160,400,10^6,usize::MAX-1,usize::MAX, random<60}; maxima {0,1,2,3,5,100,usize::MAX}; "
         "every call under catch_unwind; compared: Panic or the exact slice list, the Coq property oracle vs the harness oracle, the known-class predicate; "
         "second stream: the str::find occurrence loop vs the model's; third stream (implementation oracle only): LexIndexBuilder -> LexIndex::search on 1-3 generated documents (public call site build_snippets(.., 160, 3) and its &content[start..end]): no panic, 1..3 non-empty snippets per hit, each a slice of the document; non-trivial = text and occurrence list both non-empty; distinct by BLAKE3 of the input term",
    trusted_base=["str::char_indices is modelled as the (offset, lead byte) pairs of non-continuation bytes; equal to the std decoder on well-formed UTF-8 (Proofs/SnippetProofs.v decode_indices_eq); str validity is a std invariant",
                  "usize is 64 bits; debug profile (overflow checks on) for `end + window / 2`; in release the add wraps instead of panicking",
                  "collect_token_occurrences has no hook: its find loop is re-implemented in the harness with str::find and compared with the model's (stream find)"],
    assumptions=["guard for the full property: text empty, or max_snippets >= 1 and window >= 1 and every occurrence end + window/2 < 2^64 (each conjunct proved necessary)",
                 "content.len() <= isize::MAX so `last.1 + 20` cannot overflow (every stored end is proved <= len)"],
    allowed_axioms=[],
)

PROPS["C39"] = dict(
    corr_module="Corr.C39",
    streams={
        "filter": dict(runner="C39_filter_run", in_t="C39_filter_in", out_t="C39_filter_out", shard=150),
        "contains": dict(runner="C39_contains_run", in_t="(bytes * N)", out_t="(outcome bool)", shard=300),
        "sketch": dict(runner="C39_sketch_run", in_t="C39_sketch_in", out_t="C39_sketch_out", shard=40),
        "idf": dict(runner="C39_idf_run", in_t="C39_idf_in", out_t="C39_sketch_out", shard=40),
        "track": dict(runner="C39_track_run", in_t="C39_track_in", out_t="C39_track_out", shard=60),
        "read": dict(runner="C39_read_run", in_t="C39_read_in", out_t="(outcome (N * list entry_t))", shard=100),
    },
    level_text="Unbounded theorems over the model of src/types/sketch_track.rs. Filter: for every hash list, every filter size but 0 and every hash of the list, build_term_filter then term_filter_maybe_contains answers true (bit level: set then test at the same index, OR never clears a bit), lifted to generate_sketch for any tokenizer, any token hash and any text (no panic, every token of the text reported present). Track: read(write t) is computed exactly for every track (entries renumbered 0.. and forced into the on-disk layout); the round trip as stated is refuted (Small entry for frame 3 comes back as frame 0, flags 23 -> 7, weight sum lost) and proved for every track outside known_class, which is shown to be exact (round-trips iff outside).",
    level_note="Trusted: Coq kernel + vm_compute; hand-written model tied by differential runs (filter bytes, weights, simhash, top terms, written bytes, read-back tracks, error kinds on damaged bytes); tokenizer (NFKC, lower-casing, is_alphanumeric), BLAKE3 hash_token and the f32 weight formula are Section variables (the theorems hold for every choice); debug-profile overflow semantics. The track round trip is a known finding (F-C39-1..3), not repaired: the format stores no frame ids, Large is stored as Medium, Small has no room for flags/weight/length.",
    n_quick=420, n_thorough=6000,
    rule="filter: 0-40 hashes (random, 0, MAX, <2^16, <2^32, lanes next to multiples of the bit count, single bits) into filters of 0,1-7,16,32,64,1-100 bytes, probed with every added hash plus one-bit neighbours and fresh hashes; "
         "sketch: texts of 0-2570 tokens (edges at 49-51 and 2535-2570) over per-text vocabularies incl. Unicode (NFKC ligatures, full-width, combining marks, CJK, dotted I), one-character words and skewed repeats, all three variants; "
         "idf: the same texts with an idf map whose values make the f32 weight formula exact (small dyadic fractions, values below the 0.1 clamp, sums beyond the u16 cap, weights near and beyond the u32 sum overflow); "
         "track: 0-19 entries made by generate_sketch / hand-built in and out of the on-disk shape, ids dense, re-inserted, offset, permuted, sparse, duplicate, with gaps, written after 0-39 noise bytes and followed by 0-39; "
         "read: written tracks with damaged magic, entry size, count (incl. overflowing), version, truncation, wrong offset/length, random bytes; "
         "non-trivial = filter non-empty with hashes / text has tokens / track has entries / read reached a verdict on a header; distinct by BLAKE3 of the input",
    trusted_base=["tokenizer, hash_token (BLAKE3) and the f32 weight formula are Section variables in the theorems; in the correspondence run the tokens are the real tokenizer's output and hash_token is the finite table of real hashes of those tokens",
                  "integer overflow modelled as in the debug profile (panic); the release profile wraps"],
    assumptions=["filter size 0 is excluded (the code divides by zero; the variants use 16, 32, 64)",
                 "weights are i32 values of at most 715827882 so that six of them fit the u32 sum (idf_map = None gives 100..300)",
                 "track fields fit their Rust types and 24 + 96 * entries < 2^64 (track_wf)",
                 "track round trip: known finding outside which the theorem holds (known_class = ids not 0..n-1 in insertion order, or filter/top-term vectors not of the on-disk size, or Small entry with weight sum / flags <> 7 / length hint)"],
    allowed_axioms=[],
)
