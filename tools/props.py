"""Per-property configuration of ./check."""

PROPS = {}
NOT_APPLICABLE = {}

PROPS["C31"] = dict(
    corr_module="Corr.C31",
    streams={
        "scan": dict(runner="C31_run", in_t="C31_in", out_t="C31_out", shard=40),
        "decode": dict(runner="C31_decode_run", in_t="bytes", out_t="(option (N * bytes * N))", shard=200),
    },
    level_text="Unbounded theorems over the model of find_last_valid_footer/CommitFooter (any hash function, any byte string): returns exactly the valid footer at the greatest offset, nothing iff none is valid, TOC bytes are those described; model tied to the code by differential runs with real BLAKE3 digests and by regenerated constants.",
    level_note="Trusted: Coq kernel + vm_compute; hand-written model of src/footer.rs (tied by correspondence, 600 buffers/run quick); BLAKE3 abstracted as an arbitrary function; harness and translator.",
    n_quick=480, n_thorough=8000,
    rule="buffers of 0-2500 bytes biased towards 'M'/magic with 0-4 planted footers (valid, wrong hash, toc_len 0, "
         "toc_len>pos, u64::MAX, nested, whole-prefix, magic inside generation, cut short) + random footer-decode inputs; "
         "non-trivial = buffer holds at least one 8-byte magic (scan) / decode accepted (decode); distinct by BLAKE3 of the buffer",
    trusted_base=["BLAKE3 is a Section variable H in the theorems (they hold for every H); in the correspondence run H is the finite table of real digests of all candidate TOC windows"],
    assumptions=["toc_len = 0 is treated as invalid (a TOC is never empty), as the code does"],
    allowed_axioms=[],
)

PROPS["C05"] = dict(
    corr_module="Corr.C05",
    streams={"ops": dict(runner="C05_run", in_t="C05_in", out_t="C05_out", shard=20, imports=["Model.Wal"])},
    n_quick=320, n_thorough=6000,
    rule="op sequences (append/checkpoint/pending/records_after/stats/should_checkpoint/reopen) over fresh regions of 1 B - 64 KiB; "
         "payload sizes aimed to end within +-60 bytes of the region end or exactly at it, whole-region and oversized payloads, empty payloads; "
         "non-trivial = at least one checkpoint and two accepted appends; distinct by digest of (size, ops)",
    level_text="Unbounded refinement theorem over the byte-exact model of EmbeddedWal (any region size, any op list, any hash function): pending_records returns exactly the records appended since the last checkpoint, rejected appends change nothing, reopen-from-header preserves the pending list; model tied to src/io/wal.rs by differential op sequences with real BLAKE3 digests.",
    level_note="Trusted: Coq kernel + vm_compute; hand-written model of src/io/wal.rs (tied by correspondence); BLAKE3 abstracted as an arbitrary function; file I/O modelled as in-range writes to a byte list (short writes / I/O errors not modelled); sequence numbers assumed below 2^64.",
    trusted_base=["BLAKE3 is a Section variable H; in the correspondence run H is the table of real digests of the payloads used",
                  "should_checkpoint's f64 comparison modelled as exact rational comparison (exact for region sizes below 2^50)"],
    assumptions=["no I/O errors or short writes", "fewer than 2^64 appends"],
    allowed_axioms=[],
)
