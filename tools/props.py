"""Per-property configuration of ./check."""

PROPS = {}
NOT_APPLICABLE = {}

PROPS["C31"] = dict(
    corr_module="Corr.C31",
    streams={
        "scan": dict(runner="C31_run", in_t="C31_in", out_t="C31_out", shard=40),
        "decode": dict(runner="C31_decode_run", in_t="bytes", out_t="(option (N * bytes * N))", shard=200),
    },
    level_text="Unbounded theorems over the model of find_last_valid_footer/CommitFooter (any hash function, any byte string): returns exactly the valid footer at the greatest offset, nothing iff none is valid, TOC bytes are those described; model tied to the code by differential runs with real BLAKE3 digests and by regenerated constants.",
    level_note="Trusted: Coq kernel + vm_compute; hand-written model of src/footer.rs (tied by correspondence, 600 buffers/run quick); BLAKE3 abstracted as an arbitrary function; harness and translator.",
    n_quick=480, n_thorough=8000,
    rule="buffers of 0-2500 bytes biased towards 'M'/magic with 0-4 planted footers (valid, wrong hash, toc_len 0, "
         "toc_len>pos, u64::MAX, nested, whole-prefix, magic inside generation, cut short) + random footer-decode inputs; "
         "non-trivial = buffer holds at least one 8-byte magic (scan) / decode accepted (decode); distinct by BLAKE3 of the buffer",
    trusted_base=["BLAKE3 is a Section variable H in the theorems (they hold for every H); in the correspondence run H is the finite table of real digests of all candidate TOC windows"],
    assumptions=["toc_len = 0 is treated as invalid (a TOC is never empty), as the code does"],
    allowed_axioms=[],
)

PROPS["C05"] = dict(
    corr_module="Corr.C05",
    streams={"ops": dict(runner="C05_run", in_t="C05_in", out_t="C05_out", shard=20, imports=["Model.Wal"])},
    n_quick=320, n_thorough=6000,
    rule="op sequences (append/checkpoint/pending/records_after/stats/should_checkpoint/reopen) over fresh regions of 1 B - 64 KiB; "
         "payload sizes aimed to end within +-60 bytes of the region end or exactly at it, whole-region and oversized payloads, empty payloads; "
         "non-trivial = at least one checkpoint and two accepted appends; distinct by digest of (size, ops)",
    level_text="Unbounded refinement theorem over the byte-exact model of EmbeddedWal (any region size, any op list, any hash function): pending_records returns exactly the records appended since the last checkpoint, rejected appends change nothing, reopen-from-header preserves the pending list; model tied to src/io/wal.rs by differential op sequences with real BLAKE3 digests.",
    level_note="Trusted: Coq kernel + vm_compute; hand-written model of src/io/wal.rs (tied by correspondence); BLAKE3 abstracted as an arbitrary function; file I/O modelled as in-range writes to a byte list (short writes / I/O errors not modelled); sequence numbers assumed below 2^64.",
    trusted_base=["BLAKE3 is a Section variable H; in the correspondence run H is the table of real digests of the payloads used",
                  "should_checkpoint's f64 comparison modelled as exact rational comparison (exact for region sizes below 2^50)"],
    assumptions=["no I/O errors or short writes", "fewer than 2^64 appends"],
    allowed_axioms=[],
)

PROPS["C01"] = dict(
    corr_module="Corr.C01",
    streams={"hist": dict(runner="C01_run", in_t="C01_in", out_t="C01_out", shard=4, imports=["Model.Store"])},
    n_quick=28, n_thorough=600,
    harness_timeout=3000,
    rule="adaptive histories of 5-70 ops (put binary/text/chunked, update with/without payload, delete, commit, reopen, exit-without-commit + reopen) on a real memory; "
         "payload sizes aimed with live WAL counters to end within +-60 bytes of the log region end, to cross the 75% auto-checkpoint, and to exceed the region (growth); "
         "non-trivial = the history crossed an automatic checkpoint, a log growth, or ended a record within 48 bytes of the region end; distinct by digest of the op list",
    level_text="Unbounded refinement theorem over the frame-table model of the write path (Model/Store.v, on top of the log specification proved in C05): for every history and every timing of automatic checkpoints / log growth / commit-on-drop / replay, the exposed frames equal the reference table of acknowledged calls; model tied to the code by adaptive histories on real memories that cross checkpoints, growth and the log-region edge, compared op by op and table by table, plus an independent reference table in the harness.",
    level_note="Trusted: Coq kernel + vm_compute; hand-written model of put_internal/update_frame/delete_frame/commit/apply_records/recover_wal at frame-table level (payload bytes abstracted to content tags = BLAKE3 of what the harness put; auto-checkpoint timing, lex-batch record counts and chunk counts are oracle inputs observed on the implementation and universally quantified in the theorem). Partial: updates of DocumentChunk frames are outside the theorem (side condition run_ok).",
    trusted_base=["content identity = BLAKE3 of canonical payload, mapped to tags by the harness", "oracle inputs of each op (auto-checkpoint happened, extra log records, number of chunks) are read from the implementation through cfg(memvid_verif) hooks"],
    assumptions=["no I/O errors", "update/delete targets are Document frames (not chunks)"],
    allowed_axioms=[],
)

PROPS["C06"] = dict(
    corr_module="Corr.C06",
    streams={"hist": dict(runner="C06_run", in_t="C01_in", out_t="C01_out", shard=4, imports=["Model.Store"])},
    n_quick=24, n_thorough=500,
    harness_timeout=3000,
    rule="as C01, plus vacuum and doctor (all 16 option sets, non dry-run) at random points; next_frame_id() read before every put and compared with the id the document gets; "
         "non-trivial = the history crossed an automatic checkpoint, a log growth or ended a record within 48 bytes of the region end; distinct by digest of the op list",
    level_text="Unbounded theorems over the same frame-table model as C01: exposed frames are numbered 0..n-1 by position in every reachable state, next_frame_id equals the number of exposed frames (hence the id the next document gets, chunks following consecutively), and position i keeps the same id/uri/content/role forever; tied to the code by histories with commits, reopen, crash+replay, vacuum and doctor, checking prediction and stability on the implementation.",
    level_note="Trusted as C01. Vacuum and doctor are modelled by their effect on the frame table (a commit / a close+reopen that may reset the log sequence); their byte-level effects belong to C42/C21. Partial: same side condition as C01.",
    trusted_base=["as C01"],
    assumptions=["as C01"],
    allowed_axioms=[],
)

PROPS["C35"] = dict(
    corr_module="Corr.C35",
    streams={
        "slices": dict(runner="C35_run", in_t="C35_in", out_t="C35_out", shard=150),
        "find": dict(runner="C35_find_run", in_t="C35_find_in", out_t="(list (N * N))", shard=200),
    },
    level_text="Unbounded theorems over a line-by-line model of lex::compute_snippet_slices and its helpers (text = any byte list with std's is_char_boundary and str-slicing semantics, occurrences = any list of N pairs, any window, any maximum): with NO hypothesis every returned slice is an in-bounds range on char boundaries whose slicing cannot panic, slices are in order and more than 20 bytes apart, at most max(max,1) of them, all non-empty when window >= 1, and the only panic is end + window/2 overflowing usize; the full property holds under the guard (text empty, or max >= 1, window >= 1, no end + window/2 >= 2^64), the guard equals the complement of three known-finding classes, each conjunct is shown necessary by a witness, and all in-tree call sites (window >= 80, max >= 1, ends < 2^63) are proved to satisfy it. Model tied to the code by differential runs through the verif hook.",
    level_note="Property as stated (arbitrary arguments) is REFUTED in three classes, recorded as known findings (max-zero, window-zero, end-overflow); proved outside them. Trusted: Coq kernel + vm_compute; hand-written model of src/lex.rs (tied by correspondence on ~3000 calls/run quick, exact slice lists or Panic); char_indices modelled as the lead-byte positions of the UTF-8 bytes (equal to std's decoder on well-formed UTF-8, lemma decode_indices_eq); debug-profile overflow semantics; harness.",
    n_quick=2400, n_thorough=30000,
    rule="texts of 0-400 bytes (prose / no sentence stops / dense stops and newlines / mostly 2-4-byte chars / 0-5 bytes / whitespace runs after stops); "
         "occurrences: none, realistic (str::find matches of 1-3 needles, sorted+dedup or sorted by start), call-site arguments (window 80..200, max 1..10), "
         "malformed (unsorted, duplicates, start>end, start=end, mid-character, beyond the text, 2^63, usize::MAX), gap stream (stop-free text, raw windows 18..22 bytes apart), "
         "exact overflow edge (end + window/2 = 2^64-1 / 2^64); windows {0,1,2,3,7,20,41,80,160,400,10^6,usize::MAX-1,usize::MAX, random<60}; maxima {0,1,2,3,5,100,usize::MAX}; "
         "every call under catch_unwind; compared: Panic or the exact slice list, the Coq property oracle vs the harness oracle, the known-class predicate; "
         "second stream: the str::find occurrence loop vs the model's; third stream (implementation oracle only): LexIndexBuilder -> LexIndex::search on 1-3 generated documents (public call site build_snippets(.., 160, 3) and its &content[start..end]): no panic, 1..3 non-empty snippets per hit, each a slice of the document; non-trivial = text and occurrence list both non-empty; distinct by BLAKE3 of the input term",
    trusted_base=["str::char_indices is modelled as the (offset, lead byte) pairs of non-continuation bytes; equal to the std decoder on well-formed UTF-8 (Proofs/SnippetProofs.v decode_indices_eq); str validity is a std invariant",
                  "usize is 64 bits; debug profile (overflow checks on) for `end + window / 2`; in release the add wraps instead of panicking",
                  "collect_token_occurrences has no hook: its find loop is re-implemented in the harness with str::find and compared with the model's (stream find)"],
    assumptions=["guard for the full property: text empty, or max_snippets >= 1 and window >= 1 and every occurrence end + window/2 < 2^64 (each conjunct proved necessary)",
                 "content.len() <= isize::MAX so `last.1 + 20` cannot overflow (every stored end is proved <= len)"],
    allowed_axioms=[],
)

PROPS["C39"] = dict(
    corr_module="Corr.C39",
    streams={
        "filter": dict(runner="C39_filter_run", in_t="C39_filter_in", out_t="C39_filter_out", shard=150),
        "contains": dict(runner="C39_contains_run", in_t="(bytes * N)", out_t="(outcome bool)", shard=300),
        "tok": dict(runner="C39_tok_run", in_t="C39_tok_in", out_t="(list (list N))", shard=150),
        "sketch": dict(runner="C39_sketch_run", in_t="C39_sketch_in", out_t="C39_sketch_out", shard=40),
        "idf": dict(runner="C39_idf_run", in_t="C39_idf_in", out_t="C39_sketch_out", shard=40),
        "track": dict(runner="C39_track_run", in_t="C39_track_in", out_t="C39_track_out", shard=60),
        "read": dict(runner="C39_read_run", in_t="C39_read_in", out_t="(outcome (N * list entry_t))", shard=100),
    },
    level_text="Unbounded theorems over the model of src/types/sketch_track.rs. Filter: for every hash list, every filter size but 0 and every hash of the list, build_term_filter then term_filter_maybe_contains answers true (bit level: set then test at the same index, OR never clears a bit), lifted to generate_sketch for any tokenizer, any token hash and any text (no panic, every token of the text reported present). Track: read(write t) is computed exactly for every track (entries renumbered 0.. and forced into the on-disk layout); the round trip as stated is refuted (Small entry for frame 3 comes back as frame 0, flags 23 -> 7, weight sum lost) and proved for every track outside known_class, which is shown to be exact (round-trips iff outside).",
    level_note="Trusted: Coq kernel + vm_compute; hand-written model tied by differential runs (filter bytes, weights, simhash, top terms, written bytes, read-back tracks, error kinds on damaged bytes); tokenizer (NFKC, lower-casing, is_alphanumeric), BLAKE3 hash_token and the f32 weight formula are Section variables (the theorems hold for every choice); debug-profile overflow semantics. The track round trip is a known finding (F-C39-1..3), not repaired: the format stores no frame ids, Large is stored as Medium, Small has no room for flags/weight/length.",
    n_quick=420, n_thorough=6000,
    rule="filter: 0-40 hashes (random, 0, MAX, <2^16, <2^32, lanes next to multiples of the bit count, single bits) into filters of 0,1-7,16,32,64,1-100 bytes, probed with every added hash plus one-bit neighbours and fresh hashes; "
         "sketch: a fixed corpus first (every token shape alone, between ASCII tokens, repeated, behind punctuation and non-ASCII white space: 1 char/1 byte (dropped), 1 char/2, 3, 4 bytes (kept: the rule is byte length >= 2), 2 chars/2-8 bytes, NFKC ligatures / full-width / fractions / mathematical letters / decomposed accents, lower-casing of capital sharp s, dotted capital I, final sigma), then texts of 0-2580 tokens (edges at 49-51 and 2535-2570) over per-text vocabularies incl. Unicode (NFKC ligatures, full-width, combining marks, CJK, dotted I), one-character words and skewed repeats, all three variants; "
         "every token tokenize_for_sketch emits for the text is checked against the generated entry (and as a one-token query); tok: the tokenizer against the model's split + byte-length rule on the corpus, every vocabulary word and generated texts; "
         "idf: the same texts with an idf map whose values make the f32 weight formula exact (small dyadic fractions, values below the 0.1 clamp, sums beyond the u16 cap, weights near and beyond the u32 sum overflow); "
         "track: 0-19 entries made by generate_sketch / hand-built in and out of the on-disk shape, ids dense, re-inserted, offset, permuted, sparse, duplicate, with gaps, written after 0-39 noise bytes and followed by 0-39; "
         "read: written tracks with damaged magic, entry size, count (incl. overflowing), version, truncation, wrong offset/length, random bytes; "
         "non-trivial = filter non-empty with hashes / text has tokens / track has entries / read reached a verdict on a header; distinct by BLAKE3 of the input",
    trusted_base=["tokenizer, hash_token (BLAKE3) and the f32 weight formula are Section variables in the theorems; in the correspondence run the tokens are the real tokenizer's output and hash_token is the finite table of real hashes of those tokens",
                  "integer overflow modelled as in the debug profile (panic); the release profile wraps"],
    assumptions=["filter size 0 is excluded (the code divides by zero; the variants use 16, 32, 64)",
                 "weights are i32 values of at most 715827882 so that six of them fit the u32 sum (idf_map = None gives 100..300)",
                 "track fields fit their Rust types and 24 + 96 * entries < 2^64 (track_wf)",
                 "track round trip: known finding outside which the theorem holds (known_class = ids not 0..n-1 in insertion order, or filter/top-term vectors not of the on-disk size, or Small entry with weight sum / flags <> 7 / length hint)"],
    allowed_axioms=[],
)

PROPS["C32"] = dict(
    corr_module="Corr.C32",
    streams={
        "parse": dict(runner="C32_parse_run", in_t="C32_parse_in", out_t="C32_parse_out", shard=150, imports=["Model.Query"]),
        "eval": dict(runner="C32_eval_run", in_t="C32_eval_in", out_t="C32_eval_out", shard=60),
        "nest": dict(runner="C32_nest_run", in_t="C32_nest_in", out_t="C32_nest_out", shard=30),
    },
    level_text="Unbounded theorems over the model of Lexer/Parser/from_word/evaluate (any query text, any is_alphanumeric and date oracle): "
               "tokenize and parse never run out of fuel with fuel = |text| resp. 4|tokens|+4 and return Ok or InvalidQuery, and the parser's stack depth "
               "(a computed output of the model) is at most 4*MAX_QUERY_DEPTH+4 = 260 frames for every text (MAX_QUERY_DEPTH regenerated from parser.rs). "
               "Semantics: the evaluator reflects the reference semantics (OR = some, AND = all, NOT = negation, substring words/phrases, case-insensitive "
               "field terms), and for every well-formed expression whose printed nesting fits under the limit, the text printed with minimal parentheses "
               "(NOT > AND > OR, explicit or implicit AND) parses to an expression with the same match decision on every document.",
    level_note="Trusted: Coq kernel + vm_compute; hand-written model of src/search/parser.rs and src/search/mod.rs (tied by correspondence on ~1280 texts + "
               "400 printed ASTs x 6 documents + 270 nesting runs in child processes per quick run); char::is_alphanumeric and parse_date_value are oracles "
               "(Section variables, instantiated by tables computed by the real implementation); the regex crate is modelled by a glob matcher (tested, not "
               "proved against regex); dates are excluded from the printer round trip; frame sizes and the real stack limit are outside the model (the model "
               "bounds the number of nested frames).",
    n_quick=1200, n_thorough=20000,
    rule="parse: random text over the token alphabet ( ) \" : AND OR NOT (both cases), known/unknown field prefixes in mixed case, quoted values, date:[a TO b] "
         "well- and ill-formed, wildcards, punctuation, all 25 Unicode White_Space code points and near misses, non-ASCII letters/digits/marks, structured "
         "(operators in place, balanced parentheses, one random edit) and unstructured, plus 44 fixed edge cases, 36 fixed and ~6% random texts nesting 60-68 "
         "levels of ( / NOT / mixed around MAX_QUERY_DEPTH; non-trivial = at least two words or a parenthesis or a colon. eval: random ASTs of depth <= 5 "
         "(OR/AND/NOT, words, phrases, wildcards, five field kinds, date ranges) printed with minimal parentheses and random surface (explicit/implicit AND, "
         "keyword case, spacing, redundant parentheses, quoted/unquoted values), each on 6 random documents; non-trivial = operators nested under a different "
         "operator and 1-5 of the 6 documents match. nest: 15 nesting shapes x sizes 0..60000 (dense around 32 and 64) in a child process; a death of the child "
         "is a violation, nesting above the limit must give InvalidQuery 'query nesting too deep', at or below it must not; non-trivial = size >= 10. "
         "Distinct by BLAKE3 of the text (+contents).",
    trusted_base=["char::is_alphanumeric and parse_date_value are Section variables in the theorems (they hold for every instance); in the correspondence run they are finite tables produced by the real functions",
                  "regex crate: WildcardPattern's regex is modelled as an anchored glob matcher in which * and ? do not match a newline (compared on every wildcard case, not proved)",
                  "Parser::depth (struct field, incremented by enter(), decremented after the recursive call) is modelled as a parameter passed down: equal because every Ok path undoes its own increment and every Err aborts the parse"],
    assumptions=["default cargo features (temporal_track off: anchor_ts is not a date candidate)",
                 "wildcard patterns short enough that Regex::new does not hit its size limit (otherwise the code silently falls back to the regex ^$)",
                 "the printer round trip covers expressions without date ranges (date text goes through the parse_date_value oracle only in the correspondence run)",
                 "like the code, the model ignores tokens left after the first complete expression (e.g. 'a ) b' parses as 'a')",
                 "evaluate() and Drop recurse over the AST; its depth is at most MAX_QUERY_DEPTH (only NOT nests in the AST beyond one level per parenthesis), exercised by the nest stream, not modelled as frames"],
    allowed_axioms=[],
)

PROPS["C34"] = dict(
    corr_module="Corr.C34",
    streams={
        "manifest": dict(runner="C34_manifest_run", in_t="C34_manifest_in", out_t="C34_manifest_out", shard=40),
        "plan": dict(runner="C34_plan_run", in_t="C34_plan_in", out_t="C34_plan_out", shard=6),
        "structured": dict(runner="C34_struct_run", in_t="C34_struct_in", out_t="C34_struct_out", shard=6),
    },
    level_text="Unstructured half: unbounded theorems over the model of build_chunk_manifest/choose_chunk_boundary/slice_text_range/plan_naive_chunks/plan_text_chunks (any text over any character type, any three character tests, any chunk size > 0): the loop terminates without panic, the ranges are contiguous from 0 to the character count and non-empty, the chunk texts are non-empty and concatenate to the text, every range is at most chunk size + slack long; model tied to the code by differential runs comparing exact ranges and chunk strings. Structured half PARTIAL: unbounded theorem over the model of StructuralChunker::chunk (any element list, any max_chars): every rendered string handed to the chunker is inside some chunk and table splitting loses no row; the coverage clause as stated is refuted (8 known classes) and proved outside the known class; the detector is an oracle.",
    level_note="Trusted: Coq kernel + vm_compute; hand-written models of src/memvid/chunks.rs and src/structure/chunker.rs (tied by correspondence on exact ranges / chunk texts); char::is_whitespace modelled as the Unicode White_Space code point set; normalize_text, detect_structure and the format() renderers are oracles (their outputs are inputs of the models); harness and translator. Structured half is PARTIAL: no model of detect_structure, so the relation between the lines of the normalized text and the elements is an input (checked per case by the harness); 'no chunk is empty' for structured plans is checked by the oracle on the implementation only.",
    n_quick=200, n_thorough=6000,
    rule="fixed threshold corpus first (359 cases, seed-independent): every size the planner compares against -- CHUNK_MIN_CHARS 2400, chunk size 8/40/200/1200 with its target+slack window, structural max_chars 1200 for table/paragraph/list -- met at the constant and constant+-1 measured in CHARACTERS and separately in BYTES with pure 1-/2-/3-/4-byte code points (ASCII, Latin-1/Greek/Cyrillic, CJK, emoji) and mixed, so each (chars side, bytes side) combination occurs (chars<2400<=bytes, chars=2399/2400/2401 with bytes far above, bytes=2399/2400/2401 with chars far below), unstructured and with table/list, plus non-normalized raw variants (CRLF, tabs, blank lines, NBSP/ideographic space, full-width punctuation) that normalize to the same text; then generated: manifest: raw texts of 0-1900 characters over {newline, .!?, 20 kinds of Unicode whitespace, look-alike non-boundaries, letters/multi-byte} in 9 styles "
         "(mixed, no newline, whitespace only, no boundary at all, terminal-dense, newline-dense, sparse, prose, marks planted at the edges of the first window) with explicit "
         "chunk sizes 0..420 and 0/len-1/len/len+1/usize::MAX; plan: prose of 0-11000 characters through plan_text_chunks (newline density none..every 20 chars, CRLF, tabs, "
         "double spaces, whitespace-free runs longer than chunk+slack, no terminals, exact normalized lengths 2398..2402/2640/2641); structured: markdown documents with tables of 0-230 rows, "
         "code fences of 1-200 lines, lists, headings, rules, one witness per known class, documents built to sit on the chunker's comparisons (table of exactly 1200/1201 chars, "
         "paragraph/list overflow at 1200/1201, rows-per-chunk divisor, pending heading kept/dropped); non-trivial = a plan with at least two ranges/chunks was returned; distinct by BLAKE3 of the text and chunk size",
    trusted_base=["normalize_text (NFKC, whitespace collapsing) is an oracle: the plan model takes its output",
                  "detect_structure (regex heuristics) and heading/list/code/table format() are oracles: has_structure and the element list with rendered strings are inputs",
                  "char::is_whitespace = Unicode White_Space set written out in Model/Chunks.v (the theorems hold for any predicate)"],
    assumptions=["start + chunk_chars and target + slack do not overflow usize (chunk_chars < total <= text length whenever the loop runs)",
                 "structured half: 'a line appears in a chunk' is read as: the trimmed line is a substring of some chunk text",
                 "structured half: chunk char offsets (ranges of a structured plan) are not modelled; the property does not mention them"],
    allowed_axioms=[],
)

PROPS["C36"] = dict(
    corr_module="Corr.C36",
    streams={
        "mask": dict(runner="C36_run", in_t="C36_in", out_t="C36_out", shard=250, imports=["Model.Pii"]),
        "corpus": dict(runner="C36_run", in_t="C36_in", out_t="C36_out", shard=180, imports=["Model.Pii"]),
        "spans": dict(runner="C36_spans_run", in_t="C36_spans_in", out_t="C36_spans_out", shard=500),
    },
    n_quick=1000, n_thorough=40000,
    level_text="Unbounded theorems over a regex-AST model of src/pii.rs (backtracking matcher in the regex crate's leftmost-first order, find_iter/replace_all, mask_pii = the seven replace_all passes, contains_pii = any is_match; the seven patterns, the pass order, the tokens and the is_match order are regenerated from the source on every run; every theorem holds for all texts and all Unicode tables): the matcher is sound and complete for a declarative language semantics (is_match r s iff some substring of s is in L(r), \\b read against the neighbouring code points) for every regex of the AST; replace_all without a match is the identity for every regex; text in which contains_pii detects nothing is returned unchanged (third sentence, full strength). 'Nothing detectable remains' and idempotence are REFUTED (\"1234567890123456789\" -> \"123456789[PHONE]\", still detected, second pass differs) and proved for every text outside known_class, which is shown exact; the underlying theorem: for any list of passes, a match that survives has in its window (code point before, match, code point after) a code point inserted by its own or a later pass. No replacement token is detected by itself.",
    level_note="First two sentences of the property are REFUTED by the unchanged implementation; recorded as known finding F-C36-1 (class token-boundary-rematch), proved outside it. 'No substring that contains_pii detects' is read as contains_pii(mask_pii(x)) = false (contains_pii examines every substring in its context: theorem 1). Trusted: Coq kernel + vm_compute; hand-written model of the regex crate's matching order and find_iter/replace_all (tied by correspondence: per-pattern is_match and match spans against the regex crate on the translator-extracted pattern strings, and contains_pii / mask_pii / contains_pii(mask_pii) / idempotence / class against the public API); tools/translate_pii.py (regex syntax -> AST, incl. (?i) simple case folding of ASCII letters with U+212A and U+017F); Unicode tables for \\d \\s \\w are parameters (in the correspondence run: ASCII below 128, and for the non-ASCII code points of a case the regex crate's own answers); the refutation witness and the token facts are computed with the ASCII tables.",
    rule="FIRST, on every run, a corpus sampled from the seven pattern ASTs themselves (the translator's parse, coq/Gen/pii_patterns.json 'ast'; about 540 texts, stream corpus): for every pattern and every branch of every alternation, strings of L(pattern) built by walking the AST with each character class resolved to its ASCII-letter sub-range / its digit sub-range (falling back to whatever keeps the text free of digits and '@') and repetition counts at the minimum and minimum+1, bare and inside a letters-and-spaces carrier -- so every branch that can match without any digit and without '@' (all six API_KEY branches, TOKEN) does so at least once in a digit-free '@'-free text, and every branch has an all-digit-choice match in a digit-free carrier (the harness checks this and emits a COVERAGE-GAP case otherwise); every other member of the classes alone (each punctuation alternative, '_', tab/newline, U+017F, U+212A) and mixed choices with minimum / minimum+1 / random counts; every carrier kind (bare, letters and spaces only, punctuation without digits, text start, text end, unrelated digits, word character before / after, underscores around, punctuation around); all 49 ordered pairs of patterns glued or separated. THEN texts of 0-170 code points assembled from 0-7 fragments joined by ' ' '' ',' '-' '.' newline ':' '/' '(' ')' '+' '_' '@' '=': digit material (SSN / phone / 7-digit phone / 16-digit and Amex cards with - . space or no separators, plain runs of 3-20 digits, runs of 17-25 and glued 7+10 / 9+10 digit runs, random groupings of 1-10 digit groups with - . space ( ) + tab separators and +1 / ( prefixes), emails with empty / punctuation-only local parts, odd domains, TLDs of 1-5 characters incl. '|' and digits, '@@', missing dot, trailing word characters), dotted quads of 3-6 octets from {0,1,9,...,255,256,260,299,300,999,01,001,0001,00,1234} with '.', '..', ',' separators, key material (sk_live_/pk_test_ + 20-30, ghp_/gho_/ghx_ + 34-38, AKIA + 14-18, api_key/api-key/apikey/api key with = : spaces quotes + 17-26, random case flips, KELVIN SIGN for k, LONG S for s, a leading word character), dotted tokens of 37-46 + 4-9 + 4-9 characters, filler words, non-ASCII fillers (e-acute, em dash, CJK, Arabic-Indic and full-width digits, NBSP, EM SPACE, ZWJ, beta) and the seven replacement tokens themselves; eight fixed texts first (the two known-finding witnesses, the doc-test example, the empty text, unit-test negatives, token-only texts). Stream mask: contains_pii(x), mask_pii(x), contains_pii(mask_pii(x)), mask_pii(mask_pii(x)) == mask_pii(x), known class. Stream spans: for every pattern that matches the text plus a random one on every third text: is_match and the find_iter spans of the regex crate on the extracted pattern string. Non-trivial = something is detected or the text is changed (mask) / at least one span (spans); distinct by BLAKE3 of the text (and pattern index).",
    trusted_base=["Unicode tables for \\d \\s \\w/\\b are Section variables in the theorems; in the correspondence run they are ASCII below 128 and, for the non-ASCII code points of the case, what the regex crate itself answers",
                  "the pattern strings used by the harness's own regex objects are the ones tools/translate_pii.py extracted from src/pii.rs in this run (coq/Gen/pii_patterns.json), not a re-declaration; mask_pii / contains_pii are called only through the public API",
                  "the model's treatment of empty matches in replace_all follows the crate's find_iter rule but is not exercised: none of the seven patterns can match the empty string"],
    assumptions=["known finding outside which sentences 1-2 hold: known_class x = after the seven passes some pattern has a match whose window (code point before, match, code point after) holds a code point inserted by the same or a later pass; proved exact (in the class iff something is still detected)",
                 "the lists regenerated from the source must satisfy: mask_pii replaces exactly the patterns contains_pii tests, no replacement token is empty (theorem C36_generated_lists_consistent, re-proved on every run)",
                 "replacement tokens contain no '$' (checked by the translator), so replace_all inserts them literally"],
    allowed_axioms=[],
)

PROPS["C02"] = dict(
    corr_module="Corr.C02",
    streams={"proto": dict(runner="C02_proto_run", in_t="(list fsop)", out_t="N", shard=200, imports=["Model.FsProto"])},
    n_quick=36, n_thorough=100000,
    harness_timeout=3400,
    rule="(1) protocol stream: every API call of fixed histories is run under strace -y, its file-system operations on the memory / staging file / directory are mapped to the model's fsop alphabet and classified by the Coq recognizers (log append / staged commit / in place), compared with the protocol the call must follow; "
         "(2) kill stream: a child process runs the history and is killed (strace inject SIGKILL, syscall not executed) at its K-th mutating syscall (quick: a random sample of K per history, thorough: every K), the survivor is opened and must equal the state after the acknowledged ops or that plus the in-flight op; "
         "non-trivial = the kill hit after the memory existed / the call is not a no-op; distinct by (history, K) resp. (history, op index)",
    level_text="Protocol-level theorems (any writes, any crash point): the staged commit and the log append are crash-atomic; tied to the code by classifying the real syscall trace of every call with the model's recognizers, and explored on the real code by kill-point enumeration with survivor checks. Partial: in-place paths (log growth, vacuum, replay, create) are classified as such and covered by enumeration only.",
    level_note="Trusted: Coq kernel + vm_compute; strace's syscall injection (the K-th matching syscall is replaced by SIGKILL) and -y path decoding; the mapping from syscalls to fsop in harness/src/crash.rs; byte contents, Tantivy/zstd and kernel behaviour are outside the model.",
    trusted_base=["strace -f -y -e inject=...:signal=SIGKILL:when=K", "syscall-to-fsop mapping in harness/src/crash.rs"],
    assumptions=["a killed syscall has no effect; completed syscalls are visible to the next open (process crash, not power loss)"],
    allowed_axioms=[],
)

PROPS["C38"] = dict(
    corr_module="Corr.C38",
    streams={
        "kernel": dict(runner="C38_run", in_t="C38_in", out_t="C38_out", shard=200),
        "scalar": dict(runner="C38_scalar_run", in_t="C38_in", out_t="(N * N)", shard=200),
        "ops": dict(runner="C38_ops_run", in_t="(N * N)", out_t="(N * N * N * N)", shard=800),
    },
    level_text="Unbounded theorems over ONE carrier-generic, line-by-line model of simd::l2_distance_squared_simd / l2_distance_simd (8 lanes of +0.0, lane-wise sub/mul/add without fusing, horizontal sum folded from -0.0 in lane order, remainder in index order, sqrt; debug_assert on lengths) and of the scalar fallback. (i) over any carrier whose addition is a commutative monoid (every commutative ring; instantiated at Z) and for every length the kernel IS the scalar definition sum (a_i-b_i)^2, by induction on chunks -- so on floats the two differ only by the order of the same rounded additions; (ii) at IEEE binary32 (Flocq, round to nearest even) the kernel is symmetric bit for bit for ALL inputs of all lengths, no hypothesis, from two IEEE facts proved from Flocq's definitions (|fl(x-y)| = |fl(y-x)|, fl(d*d) depends only on |d|); (iii) equal vectors of finite components give exactly +0.0, squared and rooted; (iv) finite components give a result that is not NaN and has a clear sign bit, even when intermediates overflow. The quantitative closeness to the scalar definition is NOT proved.",
    level_note="Partial: 'equals the scalar distance up to rounding' is proved structurally (same terms, exact-arithmetic equality for every length) but the numeric bound |simd - scalar| <= 2*gamma_{n+1}*scalar (gamma_k = k*2^-24/(1-k*2^-24)) is only TESTED on every generated case by the harness oracle. Trusted: Coq kernel + vm_compute; Flocq 4 BinarySingleNaN binary32 as the meaning of f32 (one NaN: sign/payload of NaN results not modelled, all NaNs compared as 0x7fc00000) with the four standard-library axioms of its reals; hand-written model tied by bit-exact differential runs (kernel, scalar text, single hardware operations); the scalar fallback is compiled only without feature simd, so its text is copied into the harness.",
    n_quick=900, n_thorough=20000,
    rule="pairs of f32 vectors as u32 bit patterns: every length 0..100 once per run (every remainder mod 8, 0-12 chunks) plus random lengths 0-160 biased to multiples of 8 +-1; "
         "components from small integers -8..8, the grid k/2^23-1 in [-1,1], 24-bit mantissas times 2^-60..2^60, subnormals (0, 1 ulp, largest), normals 2^-76..2^-60 (squares underflow), 2^61..2^66 (squares overflow), mixtures, "
         "arbitrary bit patterns (NaN, +-inf, -0.0, +-MAX), a tie-prone grid; shapes: independent, equal, one component differs, b = a(1 +- 2^-k); 6 unequal-length pairs (debug_assert panic); "
         "compared bit for bit with the model: squared distance and distance (stream kernel), the scalar definition and its root (stream scalar), hardware +,-,*,sqrt on pairs of bit patterns (stream ops); "
         "oracle on the implementation alone: distance = sqrt(squared), d(a,b) = d(b,a) bit for bit, +0.0 on equal finite vectors, no NaN / sign bit on finite inputs, |simd - scalar| <= 2*gamma_{n+1}*scalar (and the rooted analogue), exact integer sum on integer vectors, VecIndex::search reports the same distance; "
         "non-trivial = at least one full chunk and a non-empty remainder; distinct by BLAKE3 of both vectors",
    trusted_base=["f32 arithmetic = Flocq BinarySingleNaN.binary_float 24 128 with mode_NE (Bplus, Bminus, Bmult, Bsqrt); tied to the hardware by stream ops on every run",
                  "wide 1.1.1 f32x8 add/sub/mul are lane-wise IEEE operations (SSE2 or AVX), no fused multiply-add, no flush-to-zero (checked by the subnormal cases)",
                  "<f32 as Sum>::sum folds from -0.0 (std of the pinned toolchain 1.90 and of 1.95; checked by the length-0 case of stream scalar)",
                  "debug profile: debug_assert_eq!(a.len(), b.len()) panics; in release unequal lengths index out of bounds or ignore the tail (not modelled)"],
    assumptions=["(iii) and (iv): all components finite (inf - inf is NaN: Example C38_finite_needed)",
                 "(ii) bit for bit modulo the payload/sign of a NaN result",
                 "closeness to the scalar definition: tested bound 2*gamma_{n+1}, not a theorem"],
    allowed_axioms=["ClassicalDedekindReals.sig_not_dec", "ClassicalDedekindReals.sig_forall_dec",
                    "FunctionalExtensionality.functional_extensionality_dep", "Classical_Prop.classic"],
)

PROPS["C27"] = dict(
    corr_module="Corr.C27",
    streams={
        "query": dict(runner="C27_run", in_t="C27_in", out_t="C27_out", shard=15),
        "legacy": dict(runner="C27_legacy_run", in_t="C27_legacy_in", out_t="(list C27_answer)", shard=40),
        "persist": dict(runner="C27_persist_run", in_t="(list mop)", out_t="(list C27_snapshot)", shard=20,
                        imports=["Model.Memories"]),
    },
    level_text="Unbounded theorems over the model of MemoriesTrack (add_card, SlotIndex incl. the legacy fallback scan, get_cards, get_current, get_at_time) for every track state, entity, slot and time: get_at_time never returns a card after t or a retraction; at or beyond the latest card it equals get_current; it returns exactly the latest eligible card (ties on the effective time won by the card added last) -- resting on a generic, reusable proof that a stable sort under a total preorder is a sorted stable permutation and is unique (Base/SortFacts.v; insertion and merge sort). Persistence of cards and mesh across commit/close/reopen is proved on a value-level model of commit/drop/open (partial: byte codecs not modelled) and refuted in one narrow class (a card with a non-finite confidence); a committed card set is also shown to survive a process death with uncommitted frame records (open loads the tracks before replaying the log).",
    level_note="Trusted: Coq kernel + vm_compute; hand-written model of src/types/memories_track.rs, memory_card.rs, logic_mesh.rs (merge, sort on serialize) and of the card/mesh part of commit/drop/open, tied by differential runs; ASCII strings only (Unicode to_lowercase not modelled); persistence level is PARTIAL: serde_json/zstd/bincode/TOC bytes are not modelled, only their effect on values (checked on real files each run); harness and translator.",
    n_quick=200, n_thorough=4000,
    rule="query: 0-60 cards over 1-4 entity x 1-3 slot spellings (case variants, names containing ':'), all four version relations, "
         "event/document dates present or absent, times from small pools (many ties), i64 extremes, through add_card/add_cards "
         "(a quarter also through serialize/deserialize); each stored slot queried under a random spelling plus absent slots, at every "
         "distinct effective time, +-1, 0 and i64::MIN/MAX; legacy: tracks read through serde with mixed-case index keys, dangling, "
         "duplicate and cross-slot ids; persist: 3-14 op histories (put_memory_card(s), mesh node/edge, put_bytes, commit, reopen, "
         "crash image) on a real Memvid in a tempdir, snapshot of the whole card vector and mesh after every reopen; "
         "non-trivial = a queried slot holds >= 2 cards (query/legacy) / a reopen happened with cards stored (persist); distinct by BLAKE3 of the input term",
    trusted_base=["serde_json + zstd (memories track) and bincode + zstd (logic mesh) byte codecs are not modelled: the model states their effect on values, the persist stream checks it on real files",
                  "Unicode lower-casing is not modelled: entity/slot strings are ASCII in model and runs"],
    assumptions=["card ids are unbounded naturals in the model (next_id is a u64; 2^64 cards are out of reach)",
                 "'latest' = greatest effective time (event_date, else document_date, else created_at), ties won by the card added last; a retraction card is skipped and hides nothing",
                 "the slot identity is the lower-cased string entity:slot as the code defines it (so (\"a:b\",\"c\") and (\"a\",\"b:c\") are the same slot)"],
    allowed_axioms=[],
)

PROPS["C37"] = dict(
    corr_module="Corr.C37",
    streams={
        "cutoff": dict(runner="C37_run", in_t="C37_in", out_t="C37_out", shard=40),
        "normalize": dict(runner="C37_norm_run", in_t="(list N)", out_t="(list N)", shard=40),
        "cutoff_nf": dict(runner="C37_run", in_t="C37_in", out_t="C37_out", shard=40),
        "normalize_nf": dict(runner="C37_norm_run", in_t="(list N)", out_t="(list N)", shard=40),
    },
    level_text="Unbounded theorems over a line-by-line model of types::adaptive::find_adaptive_cutoff, its five strategy helpers and normalize_scores. Generic part (any score type, any interpretation of <, + - * /, sqrt, abs, usize->f32, max, min; Flocq-free, no axioms): for every score list and every configuration the call returns without panic and min(min_results, n) <= cut-off <= n (all five strategies, normalization on/off); for the absolute and the relative threshold strategy no result kept beyond the first min_results is below the threshold, the first cut result is below it, the cut-off lies beyond min_results (so it is the least such index), and the label is no_cutoff only when everything is kept; normalize_scores preserves the length and returns 1.0 everywhere when range < EPSILON. binary32 part (Flocq IEEE 754, round-to-nearest-even): 'not below' is '>=' for finite scores and a non-NaN threshold; normalize_scores maps every list of finite scores whose max - min does not overflow to finite values in [0,1] with every maximal score mapped to exactly 1 (any length, subnormals, signed zeros, ties). Model tied to the code by bit-exact differential runs on u32 bit patterns.",
    level_note="The normalize clause as stated is REFUTED in one class, recorded as known finding F-C37-1 (range-overflow: max - min overflows to +inf, e.g. [3e38, -3e38] -> [NaN, 0]); proved outside it (C37_normalize_ok_outside_known), refutation witness by vm_compute (C37_normalize_ok_refuted), and the class is exact: every member fails (C37_known_class_always_fails). Theorems (1)-(4) of Properties/C37.v have an EMPTY assumption list; the binary32 theorems carry exactly Flocq's four standard-library axioms (classical reals). Trusted: Coq kernel + vm_compute; Flocq's binary32 as the meaning of Rust f32 arithmetic (+ - * / sqrt abs, `as f32`, comparisons; x.powi(2) modelled as x*x; f32::max/min modelled as 'ignore NaN, else the larger/smaller', zero sign canonicalised); hand-written model tied by correspondence (cut-off index + trigger label code, normalized scores bit for bit); the percentage printed inside the score_cliff(..%) label is not modelled; harness.",
    n_quick=400, n_thorough=12000,
    rule="score lists of 0-60 finite f32 (styles: uniform [0,1), BM25-like, geometric decay with cliffs, dyadic grid with ties, clusters with range below / at / above EPSILON, negative, special values (+-0, EPSILON and neighbours, MIN_POSITIVE, subnormals, +-MAX), magnitudes 2^126..MAX with mixed signs (range overflow), subnormal-only, plateau+drop elbow curves, collinear, arbitrary bit patterns), "
         "sorted descending (60%), one adjacent swap, ascending, unsorted; all five strategies with parameters sensible / equal to (or one ulp from) a score the strategy compares with / equal to an actual adjacent drop ratio / negative / > 1 / 0 / special; sensitivity 0, negative, 1, up to 5; "
         "min_results 0, 1, inside, n-1, n, n+1, n+2, usize::MAX; normalize on/off; fixed witnesses (overflow edge 2^127 vs 2^127-1ulp, range exactly EPSILON and one ulp below, collinear lists pinning the elbow loop bound, the crate's documented examples); "
         "streams cutoff / normalize compare finite NaN-free inputs, streams cutoff_nf / normalize_nf (clearly labelled) add NaN (several payloads) and +-inf among scores and parameters; every call under catch_unwind; "
         "compared with the model: Ok(cut-off, trigger code) or Panic, and normalized scores bit for bit (NaN printed as 0x7FC00000, -0 as +0 in outputs only); "
         "impl oracle (independent of the model): index bounds on every case; threshold clauses on every absolute/relative case (>= in the finite streams, not-below in the nf streams) with the threshold recomputed in f32; [0,1] and max->1.0 on every finite normalize case; "
         "non-trivial = n > min_results (a strategy runs) / some output differs from 1.0; distinct by BLAKE3 of the input term",
    trusted_base=["Rust f32 arithmetic = Flocq binary32 with round-to-nearest-even (no FMA contraction, no x87 excess precision: x86-64 SSE2 / aarch64); `x.powi(2)` = x*x; `usize as f32` = nearest-even integer conversion",
                  "f32::max / f32::min: NaN operands are ignored; for (+0,-0) std leaves the result open, the model keeps the accumulator and the comparison prints -0 as +0 in normalize outputs (the sign of a zero never reaches a comparison or a divisor in this code)",
                  "the trigger label is compared as a code; the number inside score_cliff(..%) is not modelled",
                  "AdaptiveConfig.enabled and .max_results are not read by find_adaptive_cutoff (not modelled)"],
    assumptions=["normalize clause: scores finite (no NaN / +-inf) and max - min does not overflow binary32 (known class F-C37-1 = finite scores with max - min = +inf; refuted inside, proved outside)",
                 "'at or above the threshold' (>=) needs finite scores, no range overflow when normalization is on, and a non-NaN threshold; the NaN-proof form 'not below the threshold' holds with no hypothesis at all",
                 "the relative threshold is normalized[0] * min_ratio computed in binary32 (as the code does), not the real product"],
    allowed_axioms=["ClassicalDedekindReals.sig_not_dec", "ClassicalDedekindReals.sig_forall_dec",
                    "FunctionalExtensionality.functional_extensionality_dep", "Classical_Prop.classic"],
)

PROPS["C33"] = dict(
    corr_module="Corr.C33",
    streams={
        "norm": dict(runner="C33_run", in_t="C33_in", out_t="C33_out", shard=80, imports=["Model.Text"]),
        "trunc": dict(runner="C33_trunc_run", in_t="C33_trunc_in", out_t="(N * bool)", shard=250, imports=["Model.Text"]),
    },
    n_quick=1000, n_thorough=30000,
    level_text="Unbounded theorems over a line-by-line model of text::normalize_text and text::truncate_at_grapheme_boundary (strings = lists of code points, exact UTF-8 byte widths, every limit incl. 0 and usize::MAX; NFKC, is_control, is_whitespace and grapheme segmentation are arbitrary functions constrained only by: ' ' and '\\n' are whitespace, ' ' is not a control character, the segmentation is a partition into non-empty pieces). For ALL inputs: no control character but '\\n' (no '\\r', no '\\t'), no leading whitespace, every whitespace character is ' ' or '\\n' and no two are adjacent (no double spaces, no blank lines), the output is the first k>=1 whole graphemes of the trimmed text (ends on a grapheme boundary, never empty), has at most `limit` bytes unless it is the first grapheme alone, truncated=false means nothing was cut and truncated=true means the next grapheme does not fit; truncate_at_grapheme_boundary returns a grapheme boundary, len(s) when s fits, at most limit unless the first grapheme alone is longer, and the next boundary exceeds the limit; an untruncated output that NFKC leaves unchanged is a fixed point (same limit and any limit it fits in). 'Output is NFKC', unconditional idempotence and 'no trailing whitespace' are REFUTED as stated and proved outside two narrow known classes.",
    level_note="Partial (Unicode oracles): the model cannot express facts about the NFKC tables, so 'the output is NFKC' is only reduced, not proved: every failure that goes with a removed control character is in the known class F-C33-1 (nfkc-shielded-by-removed-control: the control filter runs after NFKC; \"a\\u{1}\\u{301} b\" -> \"a\\u{301} b\" -> second pass \"\\u{e1} b\"), and idempotence of untruncated outputs is proved from nfkc(out) = out alone; that outputs are NFKC when no control character was removed is checked on every generated case by the harness (different class tag, would be a VIOLATION). F-C33-2 (trailing-whitespace-after-truncation: trimming runs before truncation; (\"ab cd\", 3) -> \"ab \") is exact: an output has trailing whitespace iff truncated and cut right after ' ' / '\\n'. Neither is repaired. Trusted: Coq kernel + vm_compute; hand-written model of src/text.rs tied by differential runs (first pass, second pass, truncation flag, both class predicates, byte index of truncate_at_grapheme_boundary) with the oracle tables computed per case by the same crates the implementation uses (unicode-normalization 0.1.25, unicode-segmentation 1.12.0, std char predicates); harness.",
    rule="strings of 0-22 pieces in 7 styles (prose; whitespace-heavy with tabs, NBSP, U+1680, U+2000-200A, U+2028/2029, U+3000, CR/LF/CRLF mixes and blank lines; control-heavy with C0/C1/DEL/NEL placed between bases and combining marks / Hangul jamo; Unicode mix of ligatures, full-width, superscripts, emoji ZWJ sequences, flags, keycaps, Hangul L/V/T and syllables, Thai/Devanagari clusters, 1-4 byte code points incl. U+7FF/U+800/U+FFFF/U+10000/U+10FFFF; tiny; blank-only; long graphemes) plus 31 fixed cases (recorded witnesses, the crate's unit tests, edge cases); "
         "limits 0, 1, 2-4, 1-64, len-1, len, len+1, uniform in [0, len+2], usize::MAX where len is the byte length of the full normalization; "
         "per case: first pass, second pass on its text, tables = NFKC of input and of output, grapheme counts of the trimmed text of each pass (taken from normalize_text(x, usize::MAX) itself), control / whitespace code points; "
         "compared: exact code points + truncation flag of both passes, known_shield / known_trailing against the harness's copies, oracle hypotheses hold on the tables, std_is_control / std_is_whitespace agree with Rust on every code point involved; "
         "second stream: truncate_at_grapheme_boundary byte index on the same kind of strings; property oracle checks every clause of the property text on the implementation's output with the Unicode crates directly (expectations beyond the text -- maximal cut, meaning of the truncation flag, None only for blank input -- are pinned by the model comparison and only tagged 'beyond-text:'); "
         "non-trivial = normalization changed the input (or returned None for a non-empty input) / the string is longer than the limit; distinct by BLAKE3 of (input, limit)",
    trusted_base=["NFKC, char::is_control, char::is_whitespace and extended grapheme segmentation are Section variables in the theorems; in the correspondence run they are finite tables of the real crate outputs for exactly the strings of each case (defaults outside the tables: identity, one grapheme per code point, false)",
                  "str::len modelled as the sum of UTF-8 widths (1/2/3/4 bytes by code point range); `consumed + grapheme.len()` cannot overflow (bounded by the string length)",
                  "the cases are transmitted as hex UTF-8 and decoded in Corr/C33.v (utf8_dec); a decoding error would show as a mismatch"],
    assumptions=["oracle hypotheses (each theorem lists the ones it uses): is_whitespace ' ' = is_whitespace '\\n' = true, is_control ' ' = false, concat (graphemes s) = s, no empty grapheme; shown satisfiable (C33_hypotheses_satisfiable) and re-checked on the real tables of every case (hyp_ok)",
                 "'ends on a grapheme boundary' and 'first grapheme' refer to the segmentation of the trimmed text that is being truncated",
                 "known finding F-C33-1: output not NFKC / second pass differs when a removed control character had shielded a composition or reordering (known_shield = control removed && nfkc(out) <> out)",
                 "known finding F-C33-2: trailing whitespace when the cut falls right after a whitespace grapheme (known_trailing = truncated && last char is whitespace)",
                 "NFKC-ness of outputs when no control character was removed rests on Unicode table facts outside the model; checked per case by the harness only"],
    allowed_axioms=[],
)

PROPS["C12"] = dict(
    corr_module="Corr.C12",
    streams={
        "decide": dict(runner="C12_decide_run", in_t="C12_decide_in", out_t="C12_decide_out", shard=400),
        "json": dict(runner="C12_json_run", in_t="C12_json_in", out_t="C12_json_out", shard=800),
        "apply": dict(runner="C12_apply_run", in_t="C12_apply_in", out_t="C12_apply_out", shard=12),
        "final": dict(runner="C12_final_run", in_t="C12_final_in", out_t="C12_final_out", shard=30),
    },
    level_text="Unbounded theorems over the line-by-line model of src/memvid/acl.rs and the ACL stage of its four call sites "
               "(any JSON parser pair, any metadata map, any context, any frame table, any hit list): the decision is Allow iff the metadata is "
               "well formed, the tenant equal and (public or a principal/role/group matches), the three deny classes are told apart exactly; "
               "Enforce returns exactly the readable hits in order ranked 1..n and is an error iff there is no usable tenant; Audit returns the "
               "input unchanged; at search / vector search / adaptive search / ask every hit, citation and context fragment under Enforce is "
               "readable and the context is rebuilt from those hits; Audit equals no-ACL. The clause 'Enforce without a tenant is an error' is "
               "REFUTED for search and the vector searches on their early empty exits (finding F-C12-1) and proved outside that class.",
    level_note="Trusted: Coq kernel + vm_compute; hand-written model Model/Acl.v (tied by the decide and apply streams); serde_json abstracted "
               "as two arbitrary functions in the theorems, instantiated in the correspondence by the hand model Model/JsonStr.v (tied to the real "
               "serde_json by the json stream); everything a call site does before its ACL stage (query parsing, Tantivy, vector index, RRF fusion, "
               "re-ranking) is an input of the model (pre-stage outcome), build_context / adaptive cutoff are arbitrary functions; harness and translator. "
               "The frame_by_id-error branch (deny) is modelled and proved but cannot be driven from the public API.",
    n_quick=2400, n_thorough=20000,
    rule="decide: n (metadata, context) pairs through verif_hooks::acl_decide -- five ACL keys with canonical / benign (case, Unicode-whitespace padding, "
         "JSON-quoted, escapes) / broken (double-quoted, near-whitespace, broken quotes, non-ASCII, blank) scalars, lists as JSON / spaced / csv / trailing "
         "comma / empty or non-string members / not an array / trailing garbage, dropped / blank / near-miss keys, unknown visibility, extra keys; contexts "
         "with tenant present/absent/blank, subject, 0-3 roles and groups in the same forms; 24 fixed branch witnesses first. json: n/3 strings through "
         "serde_json::from_str::<String> and ::<Vec<String>>. apply: one case = one search / vector-search request on a real memory (9 frames, lex+vec, "
         "commit) under 11 contexts x Audit/Enforce, compared call by call with the model's ACL stage applied to the no-ACL hits. final: every response of EVERY entry point "
         "that takes an acl_context (Memvid::search, Memvid::ask, vec_search_with_embedding_acl, search_adaptive_acl -- audit(), graph_search and replay pass none) must be a fixed point of the "
         "model's last step (re-applying the model's ACL stage to the returned hits changes neither hits nor ranks; ask citations / fragments derived from exactly those hits), one case = one "
         "request on one memory under all contexts x Audit/Enforce; ask paths: plain, zero-hit timeline fallback, ANALYTICAL (timeline replaces the candidates), aggregation, recency, update, "
         "corrections (mv2://correction/ frames), time range, Lex/Sem/Hybrid, adaptive, context_only. A fixed 12-frame memory (both tenants, role/principal/group restrictions, unknown visibility, "
         "no ACL metadata, non-JSON list, corrections) with 9 fixed contexts runs first, analytical questions first. e2e (oracle only): "
         "the same calls on the fixed memory + n/600 generated memories: every frame id in hits, "
         "citations, context fragments and every frame marker in context/answer text must be granted by the harness's own decision function; Audit must "
         "equal no-ACL; Enforce without tenant must be an error. non-trivial = usable tenant and non-empty metadata (decide) / parse accepted (json) / "
         "the no-ACL result holds at least one denied frame (apply, e2e Enforce) / non-empty result (Audit); distinct by BLAKE3 of the input",
    trusted_base=["serde_json::from_str::<String> / ::<Vec<String>> are Section variables in every theorem (they hold for every parser pair); in the correspondence run they are the hand model Model/JsonStr.v, compared with the real serde_json on the json stream",
                  "stages before the ACL stage of each call site (parse, Tantivy, vector index, fusion, re-ranking) are inputs of the model; build_context, SearchHit construction, find_adaptive_cutoff are arbitrary functions",
                  "property oracle in the harness: own decision function written from the property text (Rust str::trim, serde_json::Value, ASCII lower-casing)"],
    assumptions=["identifiers compare after trim, optional JSON-string unwrapping and ASCII case folding, as the code does (tenant 'Tenant-A ' = 'tenant-a'); this normalisation is part of the specification `reads_as`",
                 "HashSet<String> is modelled as a list used only through membership",
                 "finding F-C12-1 (no leak): Enforce without tenant returns Ok(empty) on the early exits of search / vec search / adaptive search"],
    allowed_axioms=[],
)

PROPS["C03"] = dict(
    corr_module="Corr.C03",
    streams={"proto": dict(runner="C02_proto_run", in_t="(list fsop)", out_t="N", shard=200, imports=["Model.FsProto"])},
    n_quick=10, n_thorough=100,
    harness_timeout=3000,
    rule="every API call of fixed histories (puts, updates, deletes, commits, reopen, vacuum, log growth, automatic checkpoint) is run under strace -y; its operations on the memory / staging file / directory, INCLUDING every fsync/fdatasync, are mapped to the model's fsop alphabet; the Coq recognizers (which require the fsync after the record write, the fsync of the staging file immediately before the rename and the directory fsync after it) classify the trace, compared with the protocol the call must follow; non-trivial = the call is not a no-op; distinct by (history, op index)",
    level_text="Protocol-level theorems over a durable/volatile disk model (any writes, any power-loss point): a returned put's record is in every power-loss image, a staged commit leaves the old or the new image and, once returned, only the new one; tied to the code by classifying the real syscall trace (with its fsync positions) of every call. Partial: power-loss images are not synthesised and replayed on the real code; batch mode (skip_sync) and in-place paths are outside the theorems.",
    level_note="Trusted: Coq kernel; the disk model of Model/FsProto.v (completed fsync = durable, un-synced writes may be lost from the end, un-synced rename may be lost) is the definition of the disk; strace -y decoding and the syscall-to-fsop mapping.",
    trusted_base=["disk model in Model/FsProto.v", "strace -y", "syscall-to-fsop mapping in harness/src/crash.rs"],
    assumptions=["fsync semantics as modelled", "no torn writes inside one write call at protocol level (byte level: the log record checksum of C05)"],
    allowed_axioms=[],
)

PROPS["C04"] = dict(
    corr_module="Corr.C04",
    streams={},
    n_quick=30, n_thorough=100000,
    harness_timeout=3400,
    rule="crash images (a child process exits without commit, leaving acknowledged records in the log; one image with a grown log region) are opened; the uninterrupted replay must show every acknowledged op and a second open must change no frame; then the replaying open itself is killed at its K-th mutating syscall (quick: random sample, thorough: every K), a second replay is killed at a random point, and the final open must give the uninterrupted result; non-trivial = the kill hit; distinct by (image, K)",
    level_text="Frame-table theorems (all reachable states): replay exposes exactly the acknowledged ops, replay is idempotent, crash+replay is a no-op of the reference model; crash-safety DURING replay (an in-place protocol) is explored by nested kill enumeration on the real code.",
    level_note="Trusted: Coq kernel; Model/Store.v (as C01); strace kill injection; the survivor comparison in harness/src/c04.rs. Partial: no theorem covers a crash inside the in-place replay.",
    trusted_base=["as C01", "strace -e inject=...:signal=SIGKILL:when=K"],
    assumptions=["a killed syscall has no effect"],
    allowed_axioms=[],
)

PROPS["C25"] = dict(
    corr_module="Corr.C25",
    streams={
        "hist": dict(runner="C25_run", in_t="C25_in", out_t="C25_out", shard=40, imports=["Model.Ticket"]),
        "verify": dict(runner="C25_verify_run", in_t="C25_verify_in", out_t="(outcome unit)", shard=160, imports=["Model.Ticket"]),
    },
    n_quick=200, n_thorough=4000,
    rule="hist: histories of 1-40 ops on a freshly created real memory (0-2 committed puts first): apply_ticket / bind_memory tickets with sequence numbers drawn around the current one "
         "(below, equal, +1, +2..6, far above, 0, 1, negative, i64::MIN, i64::MAX-3..i64::MAX, random), capacities None/0/1..4096/50 MiB/2^63/u64::MAX/random, expiry 0/1/86400/u64::MAX/random, "
         "11 issuers incl. empty, quotes, backslashes, control characters, UTF-8; set_memory_binding_only / bind_memory with 4 memory ids; commit, reopen (Drop commit) and exit-without-commit + reopen anywhere; "
         "10% of the histories also unbind_memory; 40% are 'dash' scenarios that bind memory 69601cef-... and present the one authentic ticket available under the embedded key "
         "(the dashboard vector of src/signature.rs: seq 9) below / at / above the current sequence number, replayed, and tampered one field at a time (signature bit, length 63/65/0, issuer, seq, expiry, capacity, memory id, "
         "right payload signed by another key, random and zero signatures); other histories present signed tickets signed by a harness key / random bytes / wrong lengths; "
         "compared after every op: Ok / error class (TicketSequence, TicketSignatureInvalid, MemoryAlreadyBound) / panic, stats().seq_no, get_capacity(), current_ticket() (issuer, seq, expiry, capacity, verified), bound memory id; "
         "verify: signature::verify_ticket_signature with per-case Ed25519 keys generated from the seeded generator: 55% authentic signatures over the signer's JSON (issuers with every escape class, "
         "seq incl. negative / i64::MIN / i64::MAX, capacity null / 0 / u64::MAX / powers of ten), 45% tampered one field or signature; the model accepts only if ITS canonical payload equals the signed message byte for byte; "
         "non-trivial = history with at least one accepted ticket, one rejected ticket and one reopen (hist) / accepted or tampered (verify); distinct by BLAKE3 of the op list / input",
    level_text="Unbounded theorems over a line-by-line model of apply_ticket / apply_signed_ticket / bind_memory / set_memory_binding_only / unbind_memory / commit / reopen and of the canonical payload "
               "(any Ed25519 oracle, any key, any state, any history): accepted sequence numbers are strictly increasing along every unbind-free history incl. reopen and exit-without-commit; a ticket is accepted only if its number exceeds "
               "every number accepted before; a rejected ticket (error or panic) leaves memory state, file state and dirty flag unchanged; a signed ticket is accepted iff bound, ids equal, 64-byte signature verifying over the canonical payload "
               "with the embedded key, number above the current one; the canonical payload is injective in (memory id, issuer, seq, expiry, capacity), hence with a signature valid for one message only every tampered variant is rejected. "
               "Model tied to the code by differential histories on real memories and by verify_ticket_signature runs with real Ed25519 keys.",
    level_note="Proof + correspondence; no violation of the property on the unchanged tree. Observations outside the property's quantifier (proved about the model, seen on the implementation, not findings): "
               "unbind_memory resets the sequence number to 1 (a lower number is accepted afterwards); once i64::MAX is accepted every further ticket is refused by an arithmetic-overflow panic in the error path (state unchanged). "
               "Trusted: Coq kernel + vm_compute; hand-written model (tied by correspondence); Ed25519 as an oracle; no I/O errors; harness. Valid signed tickets under the embedded key are limited to the one dashboard vector in the source "
               "(the private key is not available): a hook taking the verifying key would widen the accept path of apply_signed_ticket.",
    trusted_base=["Ed25519 verify_strict is a Section variable `verify` in the theorems (they hold for every function); in the correspondence run it is the finite table of (message, signature) pairs that ed25519-dalek accepts under the key in use, "
                  "every other pair rejected (i.e. a signature is taken to be valid for the signed message only)",
                  "MEMVID_TICKET_PUBKEY is a Section variable; the harness checks that the dashboard vector verifies under the real constant",
                  "free-tier capacity 50 MiB and the free-tier ticket (issuer free-tier, seq 1) are constants of the model, compared with the implementation on every case",
                  "i64 overflow modelled as in the debug profile (panic); the release profile wraps and returns the TicketSequence error"],
    assumptions=["histories in the strictly-increasing theorems contain no unbind_memory (outside the property's quantifier; behaviour stated as an observation theorem)",
                 "no I/O errors: an accepted ticket's TOC rewrite, header write and fsync succeed; Drop's commit succeeds",
                 "memory ids are 16 bytes (Uuid) for payload injectivity",
                 "tamper theorem: the signature at hand verifies for at most one message under the embedded key (hypothesis on the oracle, shown satisfiable)"],
    allowed_axioms=[],
)

PROPS["C30"] = dict(
    corr_module="Corr.C30",
    streams={
        "henc": dict(runner="C30_henc_run", in_t="hdr_t", out_t="(outcome (bytes * N * bool))", shard=200),
        "hdec": dict(runner="C30_hdec_run", in_t="C30_hdec_in", out_t="C30_hdec_out", shard=100),
        "tiapp": dict(runner="C30_tiapp_run", in_t="C30_tiapp_in", out_t="C30_tiapp_out", shard=100),
        "tiread": dict(runner="C30_tiread_run", in_t="(bytes * nat * N)", out_t="(outcome (list (Z * N)))", shard=120),
        "tocenc": dict(runner="C30_tocenc_run", in_t="value", out_t="(outcome bytes)", shard=15, imports=["Model.Bincode"]),
        "tocdec": dict(runner="C30_tocdec_run", in_t="bytes", out_t="(outcome value)", shard=20, imports=["Model.Bincode"]),
    },
    n_quick=90, n_thorough=2400,
    rule="header: Header values with edge-biased u64 fields, valid or with one of magic / version / wal_offset<4096 / wal_size=0 / all wrong (encode result, first 80 bytes, zero tail); "
         "4096-byte images = valid encodings with one bit of magic / version / spec bytes flipped, wal_offset or wal_size forced bad, a random field bit flipped, junk in the legacy-lock bytes 80..140, junk at 140..160, junk padding, 80 random bytes, files cut short or extended (decode, read through a Cursor, file after the scrub); "
         "time index: 0-90 entries with many ties, negative and i64::MIN/MAX timestamps, ids 0/u64::MAX, appended at the end / inside / beyond the end of a 0-39 byte store, then read back; "
         "written tracks with damaged magic, count +-1..3, length +-1..20, length < 12, swapped neighbours, a flipped entry bit, truncated file, overflowing count, count >= 2^59 with the matching length, shifted or out-of-file offset; "
         "TOC: generated Toc values through the public struct fields (every Option / Vec / BTreeMap / enum variant of every reachable type, 0-13 frames with metadata, non-ASCII and empty strings, NaN / -0.0 floats; memory_binding = None) encoded by Toc::encode; "
         "images: intact, 1-3 trailing bytes, truncated, last byte removed, pre-replay (V2) and pre-memories (V1) layouts with and without a trailing byte, Option tag 2..255, enum tag out of range, vector length over its bound, frames count +-1, bool byte >= 2, invalid UTF-8, one random bit; "
         "compared: encode bytes, Ok value / error class (trailing vs decode error) of decode; implementation oracle: decode(encode t) = t, re-encoding equality, must-reject damage rejected, a damaged image that decodes to a different value fails verify_checksum, stamped TOC verifies, altered checksum / content does not; "
         "non-trivial = always (header), >= 2 entries (append), every read case, TOC with frames / decode that answered Ok or had to reject; distinct by BLAKE3 of the input",
    level_text="Unbounded theorems over line-by-line models. Header: decode(encode h) = h for every header the Rust type can hold that passes encode's checks; encode rejects exactly the others; decode accepts exactly the 4096-byte buffers whose magic, version, spec bytes, wal_offset >= 4096, wal_size <> 0 check out, never panics, every accepted image re-encodes to itself on bytes 0..80 (so no other value is returned), bytes 80..4096 are ignored (stated); write/read on a file round-trips and the legacy scrub never changes the result. Footer: C31's model (round trip, length/magic rejection). Time index: read(append es) = sorted es for every store, position, entry list below 2^59 entries and any hash; the sort is characterised as THE sorted permutation; an Ok answer implies magic, count, length = 12+16n, order, and byte-exact image; image of an unsorted list -> 'entries not sorted'; read_track never panics on any input (the count*16 >= 2^63 class with matching length, which panicked in Vec::with_capacity before the repair b6c8721, is answered 'entry count too large', and exactly that class is). TOC: one generic theorem dec s (enc s v ++ rest) = Ok (v, rest) for every schema and well-typed value of the bincode model (fixed-int LE, Option, Vec with serde bounds, String with UTF-8 check, BTreeMap insertion, fixed arrays, tuples, unit enums), instantiated on the full Toc schema (every field of every reachable type; memory_binding as None only): decode(encode t) = t from the current-layout branch, any trailing bytes -> error, the V2/V1 fallback only after a decode error, verify_checksum(stamp t) holds and verify_checksum accepts only the digest of one of the three zero-checksum images. Models tied to the code by differential runs and regenerated constants.",
    level_note="Partial in one respect: Toc.memory_binding is covered as None only (Uuid / chrono::DateTime codecs are not modelled). Fixed finding: the time-index reader panicked on count >= 2^59 with matching length (b6c8721). Trusted: Coq kernel + vm_compute; hand-written models of src/io/header.rs, src/io/time_index.rs, src/toc.rs and of bincode 2 serde mode + the serde schema of types::Toc transcribed by hand (tied by byte-exact comparison of Toc::encode on generated values and of Toc::decode on damaged / legacy images); BLAKE3 abstracted as an arbitrary function (incremental hashing = hash of the concatenation); str::from_utf8 modelled as the Unicode well-formedness table; try_reserve_exact / allocations below isize::MAX bytes are taken to succeed (for read_track a refusal would be the same Err, never a panic); the 512 MiB bincode limit not modelled (inputs are shorter); harness and translator.",
    trusted_base=["BLAKE3 is a Section variable H in the theorems; in the correspondence run it is the table of the real digest of the written track",
                  "bincode's byte limit (512 MiB) is not modelled: it only turns longer inputs / larger declared lengths into errors, which the model also answers with errors",
                  "Vec::with_capacity / vec![0; n] allocations below isize::MAX bytes are assumed to succeed (deserialize_vec_bounded pre-allocates up to LIMIT elements: up to 10^7 Frames for a crafted frames length; read_track reserves count*16 bytes fallibly: a refusal is 'entry count too large', modelled only at >= 2^63 bytes); the harness keeps crafted counts out of the 2^24..2^59 range",
                  "legacy V1/V2 images are assembled in the harness from the field encodings produced by bincode with the same configuration (LegacyTocV1/V2 are private)"],
    assumptions=["header_wf / entry_wf / wt: values the Rust types can hold (array lengths, integer widths, valid UTF-8, BTreeMap keys strictly ascending); vector lengths within their deserialize bounds (a Toc with more than 10^7 frames encodes but is refused by decode -- stated in wt)",
                 "time index round trip: fewer than 2^59 entries (16 bytes each below isize::MAX)",
                 "read_track does not verify the manifest checksum (the caller may); the header has no checksum of its own and decode ignores bytes 80..4096",
                 "non-canonical images that decode to the SAME value are accepted by Toc::decode (CanonicalEncoding's u32 masked with 0xFF, BTreeMap entries out of order or duplicated); they are not 'a different value' and verify_checksum re-encodes canonically"],
    allowed_axioms=[],
)

PROPS["C24"] = dict(
    corr_module="Corr.C24",
    streams={"hist": dict(runner="C24_run_fixed", in_t="C24_in", out_t="C24_out", shard=8, imports=["Model.Capacity"])},
    n_quick=34, n_thorough=800,
    harness_timeout=3000,
    rule="6 scripted histories first (the three histories that breached the capacity before fix f25e235 -- three stacked puts, put after reopen, chunked document -- which must now end in a rejection; "
         "the witness of F-C24-4; the tier ladder through begin_batch(wal_pre_size_bytes) 4 MiB / 16 MiB with a blank-issuer ticket; an exact-fit history with a commit between the puts), "
         "then adaptive histories of 4-22 ops on a fresh memory in 8 profiles: ticket capacity = payload end + d (d = 0, 1, 2..40, 100..12000; 100-400 KiB in the log-growth profile; none in the no-ticket profile); "
         "puts of binary (stored as is), text (zstd) and chunked text (2500-7000 chars: empty parent + separately compressed chunks), 1 in 14 with an embedding, sizes aimed with live counters at limit-2..limit+2 "
         "of what is really left (max(payload end, data end) + pending stored bytes: what the check counts) and of what the check before the fix looked at (payload end + stored size: a revert accepts those), "
         "at half of it, tiny, and 200-4000; 15-60 KiB puts to make the log grow and trigger automatic checkpoints; commits at random points (few in the stacking profile, many in the commit-heavy one), "
         "tickets that raise / keep / drop (None, 0 -> tier capacity) / lower the capacity, re-used sequence numbers, blank issuer; close + reopen; log pre-sizing. Stored sizes are read from the implementation "
         "(a probe memory whose capacity equals its payload end answers every put with CapacityExceeded{required}) and re-checked against frame.payload_length after each commit. Compared after every op: "
         "Ok / CapacityExceeded{current, limit, required} / TicketRequired / TicketSequence, cached_payload_end, data_end, stats().capacity_bytes, stats().payload_bytes, vec_enabled, largest frame payload end. "
         "Oracle on the implementation: after every commit max(payload_offset + payload_length) <= capacity_bytes (payload end as the code measures it, minus the bytes log growth moved it since creation; the plain absolute "
         "reading and the byte-budget reading are reported in the text and as tags); an accepted put never has max(payload end, data end) + pending stored bytes + its own stored bytes > capacity; a rejection carries "
         "{current = that tail, limit, required = whole-payload size or, from the second check, parent + chunk bytes} and happens only when one of the two checks fails; a rejected put / ticket leaves file bytes, header, "
         "log counters, data_end, payload end, generation, frame count and stats unchanged. non-trivial = at least one accepted put, one put rejected with CapacityExceeded and one commit; distinct by digest of the op list",
    level_text="Unbounded theorems over a state machine that follows put_internal's capacity check as it is since fix f25e235 (payload_tail = max(cached_payload_end, data_end) + pending_payload_bytes; check on the whole-payload "
               "size, second check on the bytes really stored = parent + chunks; counter reset by apply_records), capacity_limit/tier, ensure_mutation_allowed, apply_ticket, apply_records' payload placement, rebuild_indexes' "
               "data_end reset, grow_wal_region, ensure_wal_capacity and open: for ALL histories of puts (any stored sizes, chunked or not, any log growth, with or without automatic checkpoint), commits, tickets, reopen and log "
               "pre-sizing the payload end (cached and real) stays within the capacity, in three readings (growth-corrected absolute end, absolute end while the log has its initial size, byte size of the region), what is pending "
               "fits too, a put that would exceed the limit fails with CapacityExceeded{tail, limit, required}, and a rejected put returns the state it got -- except that a put carrying an embedding has already run enable_vec "
               "(refuted + proved outside: known finding F-C24-4). The refutations of the check before the fix are kept as historical lemmas about step_old.",
    level_note="Three defects found by this check were repaired in f25e235 (pending bytes not counted; projection from cached_payload_end while the commit writes from data_end; chunk sizes never checked); F-C24-4 "
               "(rejected-embedded-put-enables-vec) remains a known finding. Trusted: Coq kernel + vm_compute; hand-written model (tied by correspondence op by op); stored sizes (zstd, chunk planner), log growth and "
               "automatic-checkpoint timing are inputs observed on the implementation and universally quantified in the theorems; data_end after open is an input (hypothesis: not before the frames, checked on every reopen); "
               "u64 saturating arithmetic modelled unbounded; updates/deletes and vacuum are not in the histories. The invariant is stated for the payload end corrected for log growth: with the plain absolute offset the code "
               "uses, a log growth alone moves the end beyond a ticket capacity (Example C24_growth_moves_the_absolute_end). ensure_wal_capacity still leaves cached_payload_end unshifted (modelled as is; harmless for the "
               "capacity check since the tail takes max with data_end).",
    trusted_base=["stored sizes of payloads and chunks, log growth per call, automatic checkpoints and data_end after open are oracle inputs read from the implementation (probe memory, cfg(memvid_verif) hooks data_region/header_fields/wal_stats)",
                  "lex feature on (default build): a commit with frame records ends with data_end = cached_payload_end (rebuild_indexes)"],
    assumptions=["tickets_ok: a ticket is applied only when what is stored and promised fits the capacity it grants, which is at least 69632 (needed: Example C24_ticket_hypothesis_needed); data_end at open is not before the frames",
                 "sizes below 2^64"],
    allowed_axioms=[],
)

PROPS["C15"] = dict(
    corr_module="Corr.C15",
    # after the repair of build_timeline is applied to /repo: switch the runners of "hist" and
    # "table" to C15_hist_run_fixed / C15_table_run_fixed and set F-C15-1 to "fixed"
    streams={
        "hist": dict(runner="C15_hist_run_fixed", in_t="C15_in", out_t="C15_out", shard=10, imports=["Model.Timeline"]),
        "table": dict(runner="C15_table_run_fixed", in_t="C15_table_in", out_t="C15_table_out", shard=10),
        "track": dict(runner="C15_track_run", in_t="C15_track_in", out_t="C15_track_out", shard=150),
    },
    n_quick=10, n_thorough=400,
    harness_timeout=3000,
    rule="n histories (+ the recorded witness of F-C15-1 first) of 8-24 ops on a real memory: puts with explicit timestamps from a per-history pool of 2-5 values (many ties) drawn from "
         "{-1.7e9,-1000,-7,-1,0,1,2,5,50,51,100,1.7e9} and, in one profile of four, i64::MIN, MIN+1, MAX-1, MAX; roles Document / ExtractedImage (with parent_id = latest committed document) / "
         "chunked document (2.6-5.6 kB of prose, 3-5 chunk frames sharing its timestamp); update_frame with and without payload, with and without a new timestamp, keeping or changing the role; delete_frame; "
         "targets among committed frames of any role and ids that do not exist; commit, reopen, doctor (8 option sets, non dry-run); four profiles (images always later than every document = outside the known class; "
         "random roles; no images; extreme timestamps). Snapshots on the live handle (after commits and with operations still pending), after reopen and after doctor, each closing with commit -> reopen -> doctor; "
         "per snapshot 15-18 timeline queries: unrestricted forward and reverse, since/until at, just below and just above existing timestamps, a one-timestamp window on a tie, an empty window, limits 1, random, n-1, n, n+1, u64::MAX, "
         "limit combined with a bound, reverse at random. Compared: the frame table (id, timestamp, role, status), time-index presence and the (frame id, timestamp) list of every query (stream hist, model replays the acknowledged ops), "
         "and the same queries with the model fed the observed table (stream table). Property oracle on the implementation's answers only: every entry an active Document/ExtractedImage frame with its own timestamp inside the inclusive bounds, no id twice, "
         "unlimited = all eligible frames in range, ascending/descending (timestamp, id), limited = first min(k, n) entries of the unlimited answer, reverse = exact reversal. "
         "Stream track: 12 per history, 0-14 entries over small/extreme/random timestamp and id pools through append_track+read_track, or written raw (sorted, one adjacent swap, a duplicate, random) and read. "
         "non-trivial = at least 3 eligible frames and a time index (hist/table), at least 2 entries (track); distinct by BLAKE3 of the input term",
    level_text="Unbounded theorems over a line-by-line model of build_timeline, the time-index part of rebuild_indexes and append_track/read_track (entry level), on top of a table-level model of put / chunked put / update / delete / commit / reopen / doctor. "
               "Code as it is: the property is REFUTED (F-C15-1: active ExtractedImage frames are appended after the sorted index and never re-sorted) and PROVED for every history and query outside the known class, which is exact (inside it the unrestricted query always deviates); "
               "in particular it holds for every memory without active extracted images. Repaired code (one sort of the merged list, model build_timeline_fixed): for EVERY history and EVERY query, with no side condition, timeline = limit/reverse/filter of the eligible frames "
               "(Active, role Document or ExtractedImage) sorted by (timestamp, id); chronological or exactly reversed; each eligible frame in range exactly once and nothing else; since/until inclusive; limit k = first min(k, n) entries; reverse = exact reversal; "
               "the insertion sort of the model equals any function returning a sorted permutation, so it equals Rust's sort_by_key. Tied to the code by histories on real memories compared table by table and query by query.",
    level_note="Property as stated is REFUTED on the unchanged tree (known finding F-C15-1, narrow class extracted-image-order); proved outside it; the repaired model is proved in full and its runners (C15_hist_run_fixed / C15_table_run_fixed) are ready. "
               "Trusted: Coq kernel + vm_compute; hand-written model (tied by correspondence); the time index is modelled as an entry list (the byte layout of the track belongs to C30); frame_preview / payload reads are assumed to succeed; "
               "the no-index branch of build_timeline (reached only after commit_skip_indexes, C40) is modelled but outside the op language of the theorem, as are vacuum (C42) and crash recovery (C02-C04).",
    trusted_base=["frame ids equal positions in toc.frames (C06): derived inside the model from apply_records' `frame_id = toc.frames.len()`, observed in the correspondence (frame_by_id(i).id = i)",
                  "time index present <=> Stats.has_time_index; the index content is not readable through the public API: it is observed through the order of the unrestricted timeline (hook wanted: verif_hooks::time_index_entries)"],
    assumptions=["no I/O errors; payloads readable (frame_preview succeeds)",
                 "default cargo features (temporal_track off: no temporal filter in TimelineQuery)",
                 "op language: put (any role, with chunks), update_frame, delete_frame, commit, reopen, doctor; commit_skip_indexes / finalize_indexes / vacuum / crash are not in it",
                 "code as it is: known finding outside which the theorem holds (known_class = the list 'active documents sorted by (timestamp, id), then active extracted images in id order' is not sorted)"],
    allowed_axioms=[],
)

PROPS["C08"] = dict(
    corr_module="Corr.C08",
    streams={"hist": dict(runner="C08_run", in_t="C08_in", out_t="C08_out", shard=3, imports=["Model.Store", "Model.Reads"])},
    n_quick=24, n_thorough=400,
    harness_timeout=3000,
    rule="histories of 8-30 ops on a real memory: puts (short text / chunked text >= 2500 chars / binary; with or without a 4-dimensional embedding; explicit uri reused across frames; option fields; rarely instant-indexed or with default options), "
         "update_frame with and without payload, with random subsets of the ten option fields, with or without an explicit embedding, on plain and on chunked documents and on missing / inactive ids, delete_frame likewise, commit, reopen, exit-without-commit + reopen; "
         "after every quiescent point (and at random points with uncommitted changes, oracle only) EVERY read API: timeline both directions with child frames, search_vec / vec_search_with_embedding / search_adaptive (enabled and disabled) at stored embeddings, "
         "search for a word common to all text frames (enumerates the engine) and for the unique words of deleted / superseded / updated / random frames with and without the sketch pre-filter, a uri: field query, "
         "ask in retrieval-only mode (context_only, no embedder: needs no model) incl. its timeline fallback, ask with a stub embedder (hybrid, with and without adaptive retrieval), frame_by_uri of every explicit uri, an unused uri and default uris of inactive frames; "
         "compared with the model: per-op result / frame_count / next_frame_id, at every read point the time-index ids, vector-index ids, engine document ids, frame_by_uri results, and the final table with status / supersedes / superseded_by / parent and the ten option fields of every Document frame; "
         "impl oracle (own reference table): a read API returned an id whose committed reference status is not Active (inactive-served) or a chunk whose document is not Active (orphan-chunk-served), frame_by_uri is not the newest active version, status / supersession links differ from the acknowledged calls, an unset option field of an update differs from the old version; "
         "non-trivial = a delete / update was committed, some frame is inactive and at least three read APIs returned hits; distinct by digest of the op list",
    level_text="Unbounded theorems over a line-by-line model of update_frame (ten inheritance rules, payload reuse, carried embedding), delete_frame, apply_records' mark_frame_deleted / mark_frame_superseded / remove_frame_from_indexes, rebuild_indexes with the active-only filters of rebuild_tantivy_engine / build_vec_artifact / the time index, frame_by_uri, timeline, and search / vector search / adaptive search / ask around engine oracles: for every history and every intermediate state the three index sets hold Active committed frames only (no side condition), hence no read path names a non-Active frame; a committed delete / update leaves f non-Active forever with the successor link, frame_by_uri is exactly last-active-else-last, unset option fields equal the old values. Model tied to the code by histories on real memories comparing index sets, uri lookups, the table and the inherited fields, plus an independent reference table checked against every read API.",
    level_note="Property REFUTED in one class, recorded as known finding orphan-chunk-served: chunk frames of a deleted / superseded chunked document stay Active and are served by search / ask (C08_chunks_outlive_their_document_refuted); outside that class every index member is live (C08_index_members_live_outside_known). Partial: Tantivy's search, the L2 ranking, the adaptive cut-off, query evaluation and ask's fusion are Section variables assumed only to return members of what they are given; the end-to-end theorem has C01's side condition run_ok (no update of a DocumentChunk frame); engine documents are guaranteed Active only when no instant-indexed put waits for its commit (instant_index adds a temporary document under the LOG SEQUENCE number, wiped by the full rebuild of the next commit); the legacy LexIndex fallback and the filter-only fallback (reached only when the Tantivy engine is missing or fails; the latter scans all frames without a status filter) are not modelled. Observed, not flagged: an update that replaces the payload but leaves search_text unset inherits the OLD search text (rule 7), so the new version is found by the old content's words; a payload-less update re-appends the uri / metadata lines to the inherited search text.",
    trusted_base=["engine oracles: Tantivy search_documents, VecIndex::search, find_adaptive_cutoff, ParsedQuery::evaluate / snippet slices / ACL per-hit filters, ask's RRF fusion and re-ranking (assumed: outputs are members of their inputs)",
                  "oracle inputs read from the implementation: auto-checkpoint timing and extra log records (cfg(memvid_verif) wal_stats hook), number of chunk frames, the option fields of frames created by put, whether a frame's index text holds the probe word",
                  "the engine's document set is observed through search for a probe word present in every text payload (top_k 5000, sketch filter off)"],
    assumptions=["engine oracles return members of their index sets", "no update of a DocumentChunk frame (run_ok, as C01) for the end-to-end theorem", "no instant-indexed put pending for the lexical part", "no I/O errors"],
    allowed_axioms=[],
)

PROPS["C14"] = dict(
    corr_module="Corr.C14",
    streams={"hist": dict(runner="C14_run", in_t="C14_in", out_t="C14_out", shard=4, imports=["Model.Store", "Model.VecStore"])},
    n_quick=26, n_thorough=600,
    harness_timeout=3000,
    rule="first a fixed corpus of 8 histories (the witnesses of the repaired findings F-C14-1 doctor{rebuild_vec_index} and F-C14-2 exit-before-the-vec-manifest-reached-the-file, their combinations with chunk embeddings, enable_vec, "
         "carried updates, and empty vectors), then generated histories of 6-34 ops on a real memory (default features, dimension 4): put_with_embedding / plain puts (binary, text), put_with_chunk_embeddings on documents split into 2-6 chunks "
         "with 0, 1, n-1, n, n+2 chunk embeddings and with / without a parent embedding, empty parent / chunk / update vectors, chunk embeddings offered for an unsplit document, update_frame with / without payload and with / without explicit embedding "
         "(targets biased to embedded active frames, also inactive and missing ids), delete, enable_vec, commit, vacuum, close+reopen, exit-without-commit+reopen, doctor with all 16 option sets; payloads of 47-52 KB cross the automatic checkpoint, "
         "66-80 KB grow the log; repeated embeddings, -0.0 and 1e6-scale components; after EVERY op: Stats.vec_enabled / has_vec_index / vector_count and the (frame, embedding bits) pairs reachable by search_vec(k = 10^6) + frame_embedding are "
         "compared with the model; at every commit point the property oracle compares an independent reference map (id -> embedding bits, active flags; an empty vector = none) with the reachable set (symmetric difference), the bits, vector_count, "
         "search_vec at each frame's own embedding with k = index size (distance 0), frame_embedding of every other frame = None; a loss right after doctor{rebuild_vec_index} / after a crash before the manifest reached the file is tagged "
         "doctor-vec-rebuild / crash-before-vec-manifest (repaired findings: plain violations now); non-trivial = an embedded frame survived a commit and an embedded frame was updated or deleted; distinct by digest of the op list",
    level_text="Unbounded theorem over the vector-index model on top of the frame-table model (Model/VecStore.v over Model/Store.v, following the repaired code 564c799 / 83a83e8 / 8099cac): for EVERY history of embedded / chunk-embedded / plain puts "
               "(empty vectors included), updates with or without explicit embedding, deletes, enable_vec, commits, vacuum, reopen, crash+replay (also before the first commit) and doctor (all option sets, rebuild_vec_index included), and every timing "
               "of automatic checkpoints and log growth, whenever nothing is pending the loaded index is exactly the list of (active frame, embedding given to it) in frame order (given = put embedding, i-th chunk embedding, explicit update embedding, "
               "else the updated frame's; an empty vector is none), frame_embedding answers that embedding and nothing for other frames, and update_frame carries exactly the given embedding. No known class. Default features have the single "
               "representation Uncompressed. The behaviour before the repairs is kept as *_unfixed lemmas (doctor emptied the index; a replay with vec disabled dropped the embeddings).",
    level_note="Trusted: Coq kernel + vm_compute; hand-written model of build_vec_artifact / apply_records' embedding path / commit_from_records (incl. its enable_vec) / rebuild_indexes / enable_vec / put_internal's empty-vector filter / update_frame's "
               "carried embedding / load_vec_index_from_manifest / vacuum / doctor's apply_pending_rebuilds / grow_wal_region's TOC rewrite (tied by per-op observations on real memories); the frame-table model and its side condition are C01's; "
               "automatic-checkpoint timing, log growth and chunk counts are oracle inputs observed on the implementation and universally quantified in the theorem; search_vec's scan of the Uncompressed list is C13's. Boundary: the index on file "
               "always decodes in the model; an index whose bytes no longer decode leaves vec_index = None and the next rebuild writes an empty index (file damage: C20/C21). HNSW (features vec / hnsw_bench, >= 1000 vectors) and PQ segments "
               "(parallel_segments) are outside the default configuration: described in Properties/C14.v, not modelled.",
    trusted_base=["oracle inputs of each op (automatic checkpoint happened, extra log records, number of chunks, log region grew) are read from the implementation through cfg(memvid_verif) hooks",
                  "embeddings are compared as f32 bit patterns; the index is observed through search_vec with k = 10^6 and frame_embedding"],
    assumptions=["default cargo features (lex, pdf_extract, simd): VecIndex::Uncompressed is the only representation of toc.indexes.vec",
                 "an empty vector is no embedding (564c799); an update with an explicit empty vector yields a frame without embedding (nothing is carried)",
                 "no I/O errors, index bytes on file decode; update/delete targets are Document frames (C01's side condition vrun_ok)"],
    allowed_axioms=[],
)

PROPS["C26"] = dict(
    corr_module="Corr.C26",
    # runner: C26_run = the code AS IT IS (derived id = log sequence number); switch to C26_run_fixed once the fix is in /repo
    streams={"hist": dict(runner="C26_run_fixed", in_t="C26_in", out_t="C26_out", shard=3, imports=["Model.Store", "Model.Derived"])},
    n_quick=40, n_thorough=400,
    harness_timeout=3000,
    rule="histories on a real memory: puts of generated texts whose sentences the rule extractor turns into 0-3 cards (person names encode the put number, so a card's owner is read off its entity), "
         "with extract_triplets / instant_index / enable_embedding / auto_tag varied, explicit unique URIs or default ones, whole and chunked documents (2.5-9 KB), documents big enough to cross the automatic checkpoint; "
         "binary puts, updates with/without payload, deletes, commits, reopen, exit-without-commit + replay, vacuum, doctor (16 option sets) at random points; queue drains (next_enrichment_task / process_enrichment_task / complete_enrichment_task) and observations "
         "(memories().cards(), enrichment manifest) after commits; fixed first cases: the recorded experiment (three put+commit pairs then a put: sequence 7, frame 3) and a single put; 'align' histories: doctor resets the log sequence, then put+commit pairs until sequence+1 = next_frame_id() so that a put OUTSIDE the known class is exercised; "
         "compared with the model per op: result/frame_count/next_frame_id, card count, queue length, first task; per observation: every card's (id, source_frame_id) and every enrichment stamp (frame id, card ids); per drain: each task's frame id and whether its frame was found; "
         "oracle on the implementation: card / record / queue ids against the document's id found by URI, frame_text_by_id(source_frame_id) contains the value; non-trivial = at least one card was extracted; distinct by digest of the op list",
    level_text="Unbounded theorems over a model of the derived-data tail of put_internal on top of the C01/C06 frame-table model. Code as it is: the property is REFUTED (witness: three put+commit pairs then a put -> sequence 7, document frame 3, cards and enrichment record carry 7; already the first put of a fresh memory: sequence 1, frame 0); proved for every history outside the known class (put by put: right iff log sequence + 1 = next_frame_id(); inside the class every card, record and queue entry is wrong), and every put of every doctor-free history is shown to be inside it. Repaired code (id = next_frame_id() before the append): proved for ALL histories (cards, records, queue entries, instant-index frames, in memory and in the file's copy), plus the text clause with the rule extractor as an oracle returning substrings. Model tied to the code by histories on real memories compared op by op.",
    level_note="Known finding F-C26-1 (derived-id-is-wal-seq), intended fix: capture self.next_frame_id() before the WAL append in put_internal and use it in the three `parent_seq as FrameId` places. Trusted: Coq kernel + vm_compute; hand-written model of the tail of put_internal, MemoriesTrack::add_cards/record_enrichment, EnrichmentQueueManifest push/remove, next/process/complete_enrichment_task (tied by correspondence); the rule extractor is an oracle (number of cards per put is an observed input; values are assumed to occur in the input text, checked on the implementation by the oracle); same side condition as C01 (drun_ok). The id of the instant-index temporary frame is modelled and covered by the theorems but is not observable through the public API (search drops hits whose frame is not committed; the commit rebuilds the index): no correspondence for that one use.",
    trusted_base=["rule extractor (regex crate) is an oracle: per put the number of cards it returned is read from the implementation; the text clause assumes its values occur in its input",
                  "oracle inputs of each op as in C01 (auto-checkpoint happened, extra log records, number of chunks)",
                  "the harness calls Memvid::memories_mut() after each put (sets dirty) so that cards added after an automatic checkpoint are written by the next commit; the model does the same (Derived.touch)"],
    assumptions=["as C01: no I/O errors; update/delete targets are Document frames", "extraction is never time-limited ('skim') on the generated texts, so needs_enrichment = instant_index && enable_embedding"],
    allowed_axioms=[],
)

PROPS["C13"] = dict(
    corr_module="Corr.C13",
    streams={
        "api": dict(runner="C13_api_run", in_t="C13_api_in", out_t="C13_api_out", shard=12, imports=["Model.VecSearch"]),
        "nan": dict(runner="C13_api_run", in_t="C13_api_in", out_t="C13_api_out", shard=12, imports=["Model.VecSearch"]),
        "mem": dict(runner="C13_mem_run", in_t="C13_mem_in", out_t="C13_mem_out", shard=4, imports=["Model.VecSearch"]),
    },
    n_quick=150, n_thorough=3000,
    harness_timeout=3000,
    rule="fixed corpus first: the witnesses of the three repaired defects and their neighbourhood (empty embedding after / before real ones on a real memory, inf and NaN components on a real memory, "
         "the five-vector order witness, the 21-vector sort-panic witness and the sign-set-NaN witness on the API, inf - inf on a real memory); "
         "then a lane corpus: for EVERY dimension 1..40 and 47/48/49, 63/64/65, 127/128/129, 383/384/385 (all residues mod 8, 16, 32) documents that differ from the query in exactly one coordinate -- the last, the first, the middle, and both sides of the last multiples of 8, 16, 32 -- by 1, 2, 3, stored out of distance order (a unit test of the harness shows that a 16-lane kernel with a wrong scalar-tail start is flagged at every dimension with d mod 16 in 9..15); "
         "api: VecIndexBuilder -> finish -> VecIndex::decode -> search on 0-300 documents (0, 1, 2-8, 9-40, 41-120, 121-300), dimensions uniform in 1..40 (4/5) or one of the twelve edge dimensions (1/5), the first 16 generated cases forced to 17..32, the first 10 histories to 13, 29, 9, 16, 12, 33, 15, 8, 27, 64 (tags dim=<n> and dim%16=<r> give the distribution); "
         "documents drawn independently or from one base vector changed only in its last 1-3 coordinates / first 1-3 / one random coordinate, queries = the base vector or such a neighbour; "
         "components ternary / small integers / binary (many exact ties), uniform floats, finite extremes (+-MAX, subnormals, 1e38: distances overflow to +inf), whole vectors duplicated, frame ids increasing / decreasing / repeated / sparse, "
         "one document of another dimension in 1/12 of the cases; 2-5 queries each (a stored vector, empty, dimension +-1, integer, same style) with k in {0, 1, m-1, m, m+1, m+5, usize::MAX, random}; "
         "compared: vector_count, dimension, and per query Panic or the exact hit list as (frame id, distance bits); decode(finish().bytes) must hold the documents bit for bit; "
         "nan: the same with NaN/+-inf components in documents and queries (NaN distances of both signs, +inf distances), compared exactly like api; "
         "mem: histories of 3-90 ops (120-330 in thorough) on a real memory: enable_vec, put with embedding (fresh, duplicate, wrong dimension, none, EMPTY in 1/4 of the histories, NaN/inf components in 1/7), delete, delete-everything, commit, close+reopen, "
         "search_vec before commit / after commit / after reopen with right, wrong and empty queries, the last queries repeated across a clean reopen; plus one scripted history through the dimension corners; "
         "non-trivial = a search over at least 2 documents with k >= 1 answered; distinct by BLAKE3 of the case; "
         "property oracle 1 (independent of the crate's distance function): f64 reference distances; every reported distance within (dim+8)*2.4e-7 relative of the reference of a document with that frame id, no later hit and no omitted document closer than an earlier / the last hit beyond that margin (applied whenever no coordinate difference under- or overflows in f32: all integer, uniform and lane-corpus cases); "
         "property oracle 2: brute-force recomputation with the real kernel, NaN distance = undefined = farthest (count = min(k, m), hits are distinct documents of the reference set with the kernel's distance bits, no later hit strictly closer than an earlier one, no omitted document strictly closer than the last hit, wrong dimension rejected, right dimension answered, no panic, identical answers after reopen, a frame put with an empty vector is not an embedded frame); tie order is not demanded by the oracle (only by the model comparison)",
    level_text="Unbounded theorems over a line-by-line model of VecIndex::search (Uncompressed, sort_by (is_nan, total_cmp)), VecIndexBuilder::finish, Memvid::search_vec, effective_vec_index_dimension, the embedding dimension contract of put_internal (empty vectors dropped) and the vector part of commit / delete / open, generic in the embedding type and the distance kernel (no float axioms): for EVERY history of enable/put/delete/commit/reopen/search calls (embeddings below 2^32 components) and every kernel, a query of the index dimension gets exactly the nearest neighbours of the committed active embeddings in the total order the code sorts by (numbers by total_cmp, then NaNs of either sign) -- min(k, m) hits, a sorted prefix of a permutation of all (frame, distance) pairs, nothing omitted below a returned hit, ties (identical bit patterns) in insertion order -- with no guard on the distance values; this answer is the only list meeting the property (sorted + stable is unique, so the model does not depend on std's sort algorithm); a query of another dimension is rejected before any distance is computed; search_vec never panics; close+reopen yields the committed state (identical answers). Numeric reading (NaN of either sign = undefined = farthest): non-decreasing numeric order, NaN last, no omitted frame strictly closer, under the single hypothesis on the kernel that no distance is a negative number. No known class. The three defects found earlier (empty embedding -> panic; NaN distance -> wrong order / sort panic; sign-set NaN first under plain total_cmp) are repaired in /repo and kept as historical _unfixed lemmas and regression examples. Model tied to the code by differential runs on the public VecIndex API and on real memories.",
    level_note="Trusted: Coq kernel + vm_compute; hand-written model (tied by correspondence: exact hit lists as (frame id, f32 bits) on ~600 searches over the API, NaN/inf included, and ~400 calls on real memories per quick run); the L2 kernel is abstract in the theorems (C38 models it) and instantiated at run time by the table of the real kernel's outputs; the comparator is_nan().cmp().then_with(total_cmp) modelled on bit patterns (is_nan = exponent all ones and mantissa non-zero; total_cmp: sign-clear patterns keep their value, 2^31+m becomes -1-m); numeric reading uses: non-negative floats order like their bit patterns; bincode round trip of Vec<VecDocument> is a Section hypothesis (C30) tested by the harness; which frames are committed/active and which id a put gets are oracle inputs (C01/C06/C14); debug-profile semantics for the kernel's length assertion (reachable only through the public VecIndex API with documents of mixed dimension, never through a memory).",
    trusted_base=["distance kernel simd::l2_distance_simd is a Section variable `dist`; in the correspondence run it is the finite table of the real kernel's results for (query, vector) pairs",
                  "distance values are raw f32 bit patterns; the comparison is modelled as f32_nan_last_le = (f32_is_nan, total_key) lexicographic (Model/VecSearch.v); the numeric reading relies on: non-negative non-NaN floats order like their bit patterns",
                  "bincode round trip of Vec<VecDocument> (decode(encode(docs)) = docs, all bytes read) is a hypothesis of C13_index_bytes_roundtrip; the harness checks it on every api case",
                  "frame ids of puts, success of deletes and automatic checkpoints are read from the implementation (store driver) and are inputs of the history model"],
    assumptions=["crate built without feature `vec` (as the harness does): no HNSW branch; with the feature on, indexes of >= 1000 vectors use an approximate graph for which the property is not claimed",
                 "embeddings and queries have fewer than 2^32 components (the dimension contract casts the length to u32)",
                 "numeric reading only: no distance returned by the kernel is a negative number (f32_not_negative: sign bit set only on a NaN); true of a square root of a sum of squares, observed on every case of the run (tag negative-distance would appear otherwise)",
                 "segment catalog of vector segments is empty (never populated without feature parallel_segments); effective_vec_index_dimension's segment loop is modelled but not exercised",
                 "before the first commit of an embedding, and for a memory that never had one, search_vec returns VecNotEnabled rather than an empty list; an emptied index returns [] for every query dimension (modelled as the code has it)",
                 "update_frame and chunk embeddings are not part of the history model (index membership: C14)"],
    allowed_axioms=[],
)

PROPS["C40"] = dict(
    corr_module="Corr.C40",
    streams={"hist": dict(runner="C40_run", in_t="C40_in", out_t="C40_out", shard=6, imports=["Model.Store", "Model.VecStore", "Model.Bulk"]),
             "presize": dict(runner="C40_presize_run", in_t="C40_presize_in", out_t="C40_presize_out", shard=100, imports=["Model.Bulk"])},
    n_quick=24, n_thorough=500,
    harness_timeout=3000,
    rule="document sets of 5-60 documents (short text with a probe word / text >= 2500 chars split into chunk frames / binary; 20-50 KB binaries that cross the automatic checkpoint and grow the log; explicit uris; "
         "timestamps with ties and out-of-order values; 4-dimensional embeddings on 0 / 30 / 50 / 80 % of the documents, 1 in 25 with an EMPTY embedding vector; 1 in 8 with default PutOptions = instant_index, auto_tag, triplets) ingested three ways in three files: "
         "plain puts + commit; begin_batch(random skip_sync / disable_auto_checkpoint / compression_level 0,1,3,11 / wal_pre_size_bytes 0,1,65536,65537,100000,2^20,2^20+1,random) + puts + end_batch/commit in either order, "
         "one time in three with a prefix of the documents put (and half of the time committed) before begin_batch; puts with 1-5 commit_skip_indexes in between + finalize_indexes, one time in three inside begin_batch/end_batch; "
         "each followed by the battery (frame table id/uri/status/content tag/role/parent, timeline (id, ts), 10 word searches as hit-id sequences: probe word, 5 vocabulary words, 4 unique document tokens; 3 vector searches k=10) live and after close+reopen; "
         "property oracle = ANY pairwise difference between the batteries of the batch / skip file and the plain file (no known class; a skip path whose vector searches alone differ is reported under the old tag skip-commit-drops-embeddings, now a plain violation); "
         "one document set in four also runs the boundary history puts / commit_skip_indexes / close+reopen / [puts / commit_skip_indexes] / finalize_indexes / reopen: model comparison in full, oracle on frames / timeline / word searches only; "
         "model correspondence per op: (result, frame_count, next_frame_id), log-region size, Stats.vec_enabled + the documents search_vec / frame_embedding reach, and at every commit / finalize_indexes / reopen the timeline ids and the engine's documents (probe-word search, top_k 5000); "
         "stream presize: begin_batch{wal_pre_size_bytes} on a memory holding 1-6 committed documents: new log size and every payload_offset against ensure_wal_capacity / adjust_offsets, contents re-read live and after reopen; "
         "non-trivial = at least 5 documents and both batteries taken (hist) / the log region grew (presize); distinct by digest of the op list",
    level_text="Unbounded theorems over a model of begin_batch / end_batch / PutManyOpts (options as state), ensure_wal_capacity, commit_from_records (= recover_wal, incl. the replay enabling of 8099cac), commit_skip_indexes(_inner) as repaired by ed861c9, finalize_indexes, rebuild_indexes (three Tantivy branches, build_vec_artifact, time index), Drop / open on top of the frame-table model of C01: "
               "for ALL document lists, all batch options, all segmentations, both orders of end_batch / commit and every timing of automatic checkpoints and log growth on each path, begin_batch..end_batch + commit AND puts / commit_skip_indexes* / finalize_indexes show exactly what plain puts + commit show -- frames, content tags, timestamps, timeline, engine documents and vector documents -- live and after reopen (C40_bulk_equals_plain, _reopened), "
               "as instances of one theorem over every history of put / begin_batch / end_batch / commit / commit_skip_indexes / finalize_indexes / reopen that does not reopen between a commit_skip_indexes and the following finalize_indexes; inside that window the in-memory vector index is proved complete; for every history whatsoever the exposed frames are the reference table and finalize_indexes restores timeline and engine documents. "
               "The boundary is a theorem too: close (or crash) + reopen inside the window loses the embeddings of the batch (vm_compute witness), which is why the window hypothesis is necessary. No hypothesis on documents (an empty embedding vector is no embedding, 564c799). Model tied to the code by the three-way ingestion of random document sets on real memories plus the boundary histories.",
    level_note="No known finding (F-C40-1 fixed by ed861c9; the old behaviour survives as the historical lemma C40_skip_commit_unfixed_dropped_embeddings). Boundary stated, not flagged: between commit_skip_indexes and finalize_indexes the batch's embeddings exist in memory only; the property's paths never reopen there. "
               "Partial: index CONTENTS are compared as document sets (Tantivy's ranking / BM25, VecIndex::search ranking are not modelled: the property oracle compares the real hit sequences pairwise instead); "
               "per-frame text flags, chunk counts, automatic-checkpoint timing, lex-record counts and log growth are oracle inputs observed on the implementation and universally quantified in the theorems; content = tag of the canonical (decoded) payload, so compression_level is invisible by the zstd round-trip oracle; skip_sync only moves the model's unsynced counter (durability belongs to C03); "
               "payload offsets are modelled for the pre-size shift only (stream presize), not through commits. Trusted: Coq kernel + vm_compute; hand-written model (tied by correspondence); the frame-table model and proofs of C01.",
    trusted_base=["oracle inputs of each op (automatic checkpoint happened + its lex records, log region grew, number of chunk frames, lex records appended by commit / finalize_indexes, probe-word flags of the frames) are read from the implementation through the public API and cfg(memvid_verif) hooks wal_stats / data_region",
                  "the engine's document set is observed through a probe-word search (top_k 5000, sketch filter off); the vector index through search_vec(k = 10^6) + frame_embedding",
                  "content identity = BLAKE3 of the canonical payload mapped to tags by the harness"],
    assumptions=["documents only: no update / delete inside the compared paths (those are C01 / C08 / C14)", "no I/O errors",
                 "window hypothesis of the general theorem: no close + reopen between commit_skip_indexes and the following finalize_indexes (necessary: C40_reopen_inside_window_loses_embeddings); the three paths of the property satisfy it by construction",
                 "ensure_wal_capacity keeps cached_payload_end in step since 77fcf68 (found with this check's probe: a rebuild without payload insert right after begin_batch{wal_pre_size_bytes} on a non-empty memory used to move data_end back into the log region)"],
    allowed_axioms=[],
)

PROPS["C42"] = dict(
    corr_module="Corr.C42",
    streams={"vac": dict(runner="C42_run", in_t="C42_in", out_t="C42_out", shard=2, timeout=1200)},
    n_quick=18, n_thorough=600,
    harness_timeout=3000,
    rule="two scripted regression histories first (the witness of fixed finding F-C42-1: put 500 bytes; commit; update_frame(0, None) twice; commit; then vacuum() / doctor{vacuum}), then one real memory per case: 0-22 ops (puts of binary / text / chunked / embedded documents, payload and payload-less updates incl. two payload-less updates of one frame before a commit, deletes, commits, reopen; profile 2 adds a put larger than the room left in the log so the log region doubles and every payload moves -- one such history in the quick tier, all of profile 2 in thorough; profile 5 = empty / tiny / everything deleted), final commit, then vacuum() (on the serving handle or on a fresh one) or doctor{vacuum:true, +rebuild_time/lex} and reopen; "
         "model input = frame table with windows + file bytes [data start, footer offset) + data_end / cached_payload_end / footer offset / pending records read through hooks; compared = windows of all frames, digest of the payload bytes [data start, end of last payload) (first 4096 bytes exactly + length + byte sum + position-weighted byte sum), data_end, cached_payload_end, pending records, verify outcome; "
         "oracle on the implementation alone: every column of every frame but its window (Debug of the Frame), content hash + stored bytes of active frames, (0,0) windows of inactive ones, contiguity, 13-17 queries (10 searches with / without sketch pre-filter incl. boolean / phrase / uri: field / no-match, timeline both ways, up to 3 vector searches) as sets, reopen, verify(deep) on the closed file right after vacuum() and after reopen, payload region does not grow unless windows were shared, put + commit after the vacuum (same session or after reopen) leaves all contents readable and the new frame clear of the old ones; file length before/after is recorded (stream size, tags file-grew / file-same-size / file-shrank) as an observation; "
         "non-trivial = the table has active frames and (bytes are reclaimable or windows are shared or the log grew); distinct by digest of the model input",
    level_text="Unbounded theorems over a byte-level model of Memvid::vacuum (frame table + file bytes from the data start; read phase into a map keyed by frame id, in-place write phase, data_end = cached_payload_end = cursor, rebuild_indexes writing an arbitrary index image at cached_payload_end, then TOC + log checkpoint; doctor = the same + Finalize checkpoint): for EVERY state meeting the store invariant (distinct ids, active windows empty or inside [data start, data_end], data_end inside the file; windows may overlap or be shared arbitrarily) and every index image, vacuum succeeds, keeps id / status / role / metadata / length / exact bytes of every active frame (each passes validate_frame_bounds afterwards), gives inactive frames (0,0), lays active frames out contiguously from the data start in id order (closed form; zero-length frames get the running end; frames that shared a window get separate copies), leaves windows pairwise disjoint and below the new cached_payload_end, re-establishes the invariant, leaves no pending log record (verify's WalPendingRecords check passes, also through doctor), does not grow the payload region when no windows were shared (pairwise-disjoint-intervals lemma), and leaves the table view used by search / timeline / index rebuild (hence Tantivy document set, time index, any function of the view) unchanged. Tied to the code by real-memory histories: model vs implementation on windows, payload bytes, data_end, cached_payload_end, pending records, verify.",
    level_note="Property holds on the current tree; two defects found by this check were fixed in /repo (f791181 stale cached_payload_end: content change with shared windows; 4c0da7f sketch track not re-persisted -> unopenable file, and pending lex record -> verify Failed); the pre-fix behaviours are kept as labelled historical lemmas (historical_stale_cpe_refutation, historical_verify_failed_before_4c0da7f). File LENGTH is outside the property as stated ('compacts' is taken as the payload-region statement that is proved and checked): observed, the file never shrinks and usually grows by tens to hundreds of bytes (footer_offset = max(old, new), theorem C42_file_never_shrinks as documentation). Trusted: Coq kernel + vm_compute; hand-written model of mutation.rs vacuum / rebuild_indexes placement / frame.rs validate_frame_bounds; the index image, sketch track, TOC bytes, Tantivy / vector index contents, zstd and BLAKE3 are oracles (search / timeline equality and verify's index-decode checks are checked on the implementation only); offsets unbounded (no u64 overflow); no log growth during the rebuild's lex record; crash safety of the in-place rewrite belongs to C02; rank ORDER of search hits is compared as a tag only (BM25 statistics change when deleted documents leave the index), hit sets and snippets exactly; doctor's rebuild_vec_index flag is not combined (on its own, without vacuum, it empties the vector index: doctor's defect, reported).",
    trusted_base=["Coq 8.16.1 kernel incl. vm_compute", "hand-written model coq/Model/Vacuum.v tied by correspondence (harness/src/c42.rs, shared driver harness/src/store.rs, hooks data_region / header_fields / wal_stats)", "index image / sketch track / TOC / Tantivy / vector index / zstd / BLAKE3 as oracles"],
    assumptions=["store invariant (distinct frame ids; active windows empty or inside [data start, data_end]; data_end inside the file)", "offsets are unbounded naturals (no u64 overflow)", "the lex batch record appended during the rebuild does not grow the log region"],
    allowed_axioms=[],
)

PROPS["C11"] = dict(
    corr_module="Corr.C11",
    streams={
        # *_fixed = the composition as of commit d76304f; C11_run / C11_trunc_run model the code before it
        "exact": dict(runner="C11_run_fixed", in_t="C11_in", out_t="C11_out", shard=60),
        "trunc": dict(runner="C11_trunc_run_fixed", in_t="C11_trunc_in", out_t="C11_trunc_out", shard=60),
        # stream "ask" is an observation (tags only): the property is about Memvid::search
    },
    n_quick=540, n_thorough=6000,
    harness_timeout=3000,
    rule="real memories of 3-60 short documents (60 requests per memory, so n/60 memories + the fixed 6-document witness memory of F-C11-1 (fixed) and F-C11-2): every document has its OWN 7-letter vocabulary "
         "(2-5 words) plus 0-3 words of a small shared pool ('distinct' / 'mixed'), one memory in six shares a single vocabulary ('oneVocab', all sketches alike); explicit timestamps increasing / decreasing / random / "
         "heavily tied and not monotone in the id; some frames deleted (biased to frame 0, frame 1 and the earliest timestamp), extra commits, close+reopen in 1/4; "
         "queries: a word of one document, a shared word (several frames on both sides of the cut-off), two words (AND), OR, an absent word, date-range-only, each optionally with date:[a TO b] (RFC 3339 bounds on / around frame timestamps, one side open, inverted); "
         "cut-offs chosen AFTER looking at what the query matches and at its sketch candidates: as_of_frame / as_of_ts on, one below and one above a matching frame (id and timestamp ties), below / above the whole range, 0, u64::MAX, i64::MAX, none, "
         "and in ~25% of the requests strictly below every sketch candidate (replay set and sketch set disjoint on purpose: the branch that used to leak the future); no_sketch in 1/4; top_k 100 (non-truncating) or 0 / 1 / 2-4 (truncating). "
         "Compared per request: exact stream (top_k and doc_limit do not truncate: no next_cursor in either response and active frames <= max(4*top_k,20)) -- the sorted hit frame ids of Memvid::search must equal the model's "
         "(filter F composed by the model from frame table, time index, date range, cut-offs, has_sketches, has_text_terms, no_sketch and the observed sketch candidates; hits = engine oracle U restricted to F, "
         "U = hits of the same query with no as_of_*, no_sketch and top_k 10000); trunc stream -- hits are a subset of the model's set and number min(|set|, max(top_k,1)); both streams also compare the harness's "
         "evaluation of the empty-intersection predicate with Coq's sketch_disjoint. Property oracle on the implementation alone: a hit with id > as_of_frame or timestamp > as_of_ts (no known class: always a VIOLATION); "
         "in the non-truncating regime a hit that the same request without as_of_* does not return (known class F-C11-2 only if the as-of request is in the empty-intersection branch and the added hit is not a sketch candidate). "
         "Tags give the split truncating / non-truncating, cut-off kinds, replay set empty / proper / all, sketch stage applied, sketch dropped. "
         "non-trivial = as_of_* given and the query matches at least one frame; distinct by digest of (frame table, query, cut-offs, flags, candidates, U)",
    level_text="Unbounded theorems over the line-by-line model of the candidate-filter composition at the top of Memvid::search (date range -> temporal -> replay ids -> sketch candidates, all early empty-response exits, "
               "as of commit d76304f) and of get_replay_frame_ids, over abstract frame-id sets, for every frame table, time index, request, sketch candidate set and engine. First clause, NO class excluded: get_replay_frame_ids is exactly "
               "{active, id <= n, timestamp <= t}; whenever as_of_* is given the final candidate filter exists and is a subset of the replay set, so (engine returns only members of its filter) every hit is an active frame with id <= n and "
               "timestamp <= t. Second clause ('adding either filter never adds a hit', engine monotone in the filter = non-truncating regime): REFUTED as stated (C11_monotone_refuted by vm_compute, reproduced on real memories, finding F-C11-2): "
               "when the filter built so far and the non-empty sketch candidate set are disjoint the as-of request drops the sketch and returns a genuine in-window match that the sketch rejects, which the request without as_of_* (still sketch-filtered) misses; "
               "proved outside exactly that branch (sketch_disjoint), proved for ALL inputs under the hypothesis that the sketch has no false negative for the query, proved unconditionally for requests that do not run the sketch stage, for dropping "
               "both cut-offs and for tightening / adding either one; the class is characterised (every hit of such a request is a non-candidate of the sketch and inside the window). The refutation of the code before d76304f "
               "(sketch-only fallback returned frames from the future, fixed finding F-C11-1) is kept as historical lemmas C11_old_*; runners C11_run / C11_trunc_run model that old code and disagree with the implementation in that branch.",
    level_note="First clause proved for all inputs. Second clause REFUTED in one class recorded as known finding F-C11-2 (sketch-miss-surfaced-by-asof; root cause is sketch recall, C09); proved outside it and under a no-false-negative hypothesis. "
               "Monotonicity is stated for requests that top_k and doc_limit do not truncate: with truncation the filtered request legitimately surfaces lower-ranked frames that the unfiltered one cut off, the evidence tags count both regimes. "
               "Trusted: Coq kernel + vm_compute; hand-written model Model/AsOf.v (tied by the exact/trunc streams on real memories); the engine (Tantivy / legacy lex fallback / filters-only scan + ParsedQuery::evaluate) is a Section variable "
               "with hypotheses 'returns only members of the filter', 'monotone in the filter', 'a filter never adds a hit', instantiated in the correspondence by the table of what the real engine returns unfiltered; find_sketch_candidates, "
               "required_date_range and the time index are inputs observed through public API / the query_facts hook; the temporal_track stage is modelled but compiled out of the default build. `ask` forwards as_of_* to search but its "
               "timeline fallback ignores them (observed, stream 'ask', not part of this property).",
    trusted_base=["engine oracle: U = frame ids returned by the real Memvid::search for the same query with no as_of_*, no_sketch = true, top_k = 10000; the model's engine(F) = U restricted to F",
                  "sketch candidates, has_sketches, the date range and the time index entries are read from the implementation (find_sketch_candidates, has_sketches, verif_hooks::query_facts, timeline)"],
    assumptions=["engine hypotheses (Section variables in Proofs/AsOfProofs.v, satisfiable: Example C11_engine_hypotheses_satisfiable): with a candidate filter the engine returns only members of it; for monotonicity, it is monotone in the filter and a filter never adds a hit (non-truncating regime)",
                 "default cargo features (lex, pdf_extract, simd): the temporal_track stage and the temporal-anchor branch of frame_ids_in_date_range are compiled out; modelled as an input / not modelled respectively",
                 "frame ids are unique in the frame table (NoDup hypothesis of the per-frame theorem; frame.id is the table index)",
                 "second clause only: known finding F-C11-2 outside which it holds = the sketch stage applies with a non-empty candidate set disjoint from the non-empty filter built so far (sketch_disjoint); alternatively the hypothesis 'everything the engine returns unfiltered is a sketch candidate'"],
    allowed_axioms=[],
)

PROPS["C16"] = dict(
    corr_module="Corr.C16",
    streams={
        "walk": dict(runner="C16_walk_run", in_t="C16_walk_in", out_t="C16_walk_out", shard=24, imports=["Model.SearchPage"]),
        "page": dict(runner="C16_page_run", in_t="C16_page_in", out_t="C16_page_out", shard=40, imports=["Model.SearchPage"]),
    },
    n_quick=16, n_thorough=240,
    harness_timeout=3000,
    rule="n corpora, each one real memory with one commit: 1-80 documents containing 'zebra' (sizes cycling through 1-8, 9-19, exactly 20, exactly 21, 22-30, 31-45, 46-80, random: around the doc_limit floor 20 and its 4*(k+offset) steps) with 1 / 1-2 / 1-4 occurrences "
         "(gaps 5-65 bytes = merged slice, 90-120 = borderline, 150-270 = separate slices; with or without sentence punctuation), 0-7 documents that do not match, in one corpus of four up to two chunked documents (3-4.5 kB, chunk frames with non-zero chunk start), "
         "timestamps all equal (half) or on 2-4 day levels or hour levels (recency re-sort active). One request top_k=1000 = one-shot stream + per frame BM25 score, chunk range, chunk text; from these the oracles of the model: engine ranking (score desc, frame id asc), "
         "slice tables for caps 1-6 via verif_hooks::snippet_slices (self-checked against the one-shot ranges), f32 combined scores by the code's formula. Stream walk: page sizes 0,1..10 and one of 11/16/25/50/999, following next_cursor to the end (fuel 400): every page's (frame, range) list, total_hits, next_cursor "
         "and the way the walk ends compared with the end-to-end model -- also where doc_limit or the snippet cap binds. Stream page: single requests with cursors at/after total_hits of the first page and of the one-shot answer, random mid-document offsets, padded ' n ', '+n', '00n', empty, blank, non-numeric, > u64::MAX, far beyond, "
         "top_k 0, 100000 and usize::MAX, cursor u64::MAX and top_k usize::MAX with cursor 1 (top_k.max(1).saturating_add(cursor) saturates: InvalidCursor / a normal page, a panic is a violation), plus a query nothing matches. Property oracle (implementation only): concatenated pages = one-shot stream, no (frame, range) twice, none missing, total_hits constant and equal to the one-shot's, "
         "walk ends with next_cursor absent and no error, no page above top_k, next_cursor < total_hits; failures tagged by input predicates (candidates > max(20,4*max(k,1)); some frame's slices at cap k differ from its uncapped slices; neither). "
         "non-trivial = walk of more than one page / request answered; distinct by corpus digest + page size + cursor",
    level_text="Unbounded theorems over a line-by-line model of parse_cursor, offset_hint/doc_limit, the evaluation loop's snippet cap, the recency re-sort and the page loops of try_tantivy_search and search_with_lex_fallback. "
               "LAYER (proved for every evaluated list, every emit function incl. both pipelines, with and without the early break, every page size incl. 0, every one-shot size that holds all hits): following next_cursor terminates with next_cursor absent after at most max(1,total) pages, never errs, "
               "the pages are a partition of the slice stream into consecutive intervals with strictly increasing cursors, each page holding exactly the hits of its interval and at most top_k of them, concatenation = the one-shot hits, total_hits constant and equal to the one-shot's; the same from any valid resume cursor; cursor > total_hits -> InvalidCursor. "
               "END TO END (engine = prefix oracle of a fixed ranking, combined-score function arbitrary): the property as stated is REFUTED in two classes -- F-C16-1 more candidates than the first page's doc_limit (witness: 21 candidates, page size 1: a hit returned twice, the one-shot's first hit never returned, total_hits 20 then 21), "
               "F-C16-2 a document with more snippet slices than the page size (max_snippets_per_doc = top_k: witness one document, two slices, page size 1: one hit, total_hits 1 vs 2) -- and PROVED outside them (C16_e2e_outside_known) for every candidate list, page size, one-shot size and scoring function. "
               "Tied to the code by walks and single requests on real memories compared page by page with the end-to-end model, including the regimes where the limits bind.",
    level_note="Property as stated is REFUTED on the unchanged tree (known findings F-C16-1, F-C16-2; classes decided by predicates on the input that are the hypotheses of C16_e2e_outside_known). Trusted: Coq kernel + vm_compute; hand-written model (tied by correspondence); "
               "Tantivy's TopDocs as 'first doc_limit of one fixed ranking by (score desc, doc address asc)'; compute_snippet_slices as a per-frame table (its own model is C35's); the f32 expression of the recency boost as a table computed by the harness with the code's formula; "
               "candidates culled by the evaluation loop (c_keep = false) and candidate filters (sketch, date range, as-of) are in the model and theorems but not reached by the correspondence (no public way to observe raw engine hits); "
               "the clamped-empty-slice branch of the page loop is modelled and proved but unreachable through the public API (compute_snippet_slices already clamps to the text).",
    trusted_base=["engine oracle: the request sees firstn doc_limit of the ranking (score desc, frame id asc) reconstructed from the scores in the top_k=1000 answer; a wrong reconstruction shows up as a correspondence mismatch, not as a silent pass",
                  "combined : score bits -> age -> f32 bits is a Section variable in the theorems (they hold for every function); in the correspondence it is the table of values computed in f32 with the formula copied from tantivy.rs",
                  "slice tables: verif_hooks::snippet_slices on the chunk text and the occurrences of the query token, caps 1-6, self-checked against the one-shot ranges"],
    assumptions=["BM25 scores positive and finite (f32 order = order of bit patterns)",
                 "candidate filter absent in the correspondence (no_sketch = true, no date range, no as-of)"],
    allowed_axioms=[],
)

# checks whose model is being updated to a repaired /repo: not claimed until re-merged

PROPS["C20"] = dict(
    corr_module="Corr.C20",
    streams={
        "fault": dict(runner="C20_run", in_t="C20_in", out_t="C20_out", shard=400),
        "ti": dict(runner="C20_ti_run", in_t="C20_ti_in", out_t="C20_ti_out", shard=100),
        "order": dict(runner="C20_order_run", in_t="C20_order_in", out_t="C20_order_out", shard=40),
    },
    n_quick=2000, n_thorough=60000,
    harness_timeout=3000,
    rule="4 committed, closed files built per run (1 plain binary frame; binary + 2 zstd text frames; chunked document + binary with default "
         "options; 3 frames with embeddings and two memory cards over two commits with a deleted frame), ~75-100 KiB each; the region map is computed from the "
         "header, the footer scan and the decoded TOC; faults: one bit flipped in every byte of the header fields, log record headers, time "
         "index, footer and (quick: an even sample sized to n, thorough: every byte) of the payloads and the TOC, samples of the other "
         "classes, zeroing of the first / last / a random 64-byte-aligned block of every region, truncation at every region start -1/+0/+1 "
         "and at random offsets; every faulted copy is opened with Memvid::open and open_read_only (all frame metadata, payloads, texts, "
         "embeddings, two searches, timeline, vector search) and verified with verify(deep) in worker processes; "
         "non-trivial = the fault changed the file; distinct by (file, fault kind, offset, length)",
    level_text="Unbounded theorems over the model of the checks between a changed byte and a reader (read_toc's length + commit-footer hash "
               "comparison, track manifest checksums, validate_frame_bounds / read_frame_payload_bytes with the frame-checksum comparison of "
               "/repo 55d5bb8 / frame_canonical_bytes, Memvid::verify check by check incl. FramePayloadChecksums, the deferred "
               "Toc::verify_checksum at the end of open_locked): hash-guarded classes (TOC + footer, tracks, frame payloads plain and zstd) "
               "detect every change (collision-freeness on the two byte strings involved), verify(deep) = Passed implies every active payload "
               "reads as committed; the property as stated is refuted for the remaining unguarded classes (time index, log record sequence / "
               "header wal_sequence, TOC on the hinted-recovery + re-stamp path) by witnesses; the detection table predicts no silent "
               "difference outside the known classes. The table is tied to the implementation by fault injection on real files.",
    level_note="proof, partial: Tantivy, vector-index, sketch-track decoders, serde on damaged TOC bytes, header wal_offset / wal_size effects and "
               "the log replay are observed by the correspondence run (set-valued table entries), not modelled; recover_toc's footer scan is "
               "the C31 model, its legacy checksum scan is not modelled. Trusted: Coq kernel + vm_compute; hand-written model tied by "
               "correspondence; BLAKE3 / zstd abstracted as arbitrary functions; harness (region map, fault injection, read comparison).",
    trusted_base=["BLAKE3 is a Section variable H; theorems assume collision-freeness only on the byte strings compared (stated per theorem)",
                  "zstd::decode_all, the lexical and vector index decoders are arbitrary functions in the theorems",
                  "the region map of the harness (header / log scan / TOC manifests) decides which table entry a fault is compared with"],
    assumptions=["a fault touches the guarded content or its stored digest but not both (every single-byte flip), or the damaged digest is not the digest of the damaged content (general form)",
                 "file layout pre ++ toc ++ footer with header.footer_offset = |pre| for the read_toc theorems"],
    allowed_axioms=[],
)

PROPS["C19"] = dict(
    corr_module="Corr.C19",
    streams={
        "hist": dict(runner="C19_run", in_t="C19_in", out_t="C19_out", shard=4, imports=["Model.FsProto", "Model.SingleFile"]),
        "refuse": dict(runner="C19_refuse_run", in_t="C19_refuse_in", out_t="call_out", shard=60, imports=["Model.FsProto", "Model.SingleFile"]),
    },
    n_quick=12, n_thorough=300,
    harness_timeout=2400,
    rule="(1) histories of 6-22 steps on 1-2 real memories (names: plain, with a space, non-ASCII UTF-8, without extension, dot-prefixed, not valid UTF-8) in a fresh directory that already holds unrelated files "
         "(a text file, a sidecar of ANOTHER name, a hidden file, a sub-directory, a garbage .mv2): put (binary/text/chunked, with embeddings), commit, vacuum, drop / exit-without-commit, open, open_read_only, verify, doctor (all 16 option sets), "
         "and REAL failing calls: capacity exceeded behind a tiny ticket, stale ticket, invalid frame id (update/delete), embedding dimension mismatch, open/open_read_only/verify/doctor of garbage and of a missing file, "
         "commit failing inside with_staging_lock while copying (RLIMIT_FSIZE below the file size: EFBIG) and inside the closure (limit just above the file size), commit whose final renameat fails (EISDIR), lockfile::acquire / drop; "
         "after EVERY call the directory is listed and its inotify events (create / delete / rename) are drained; compared with the model: result class, reported sidecar, the directory operations of the call, the sorted listing, names_ok, known_class; "
         "(2) refusal matrix per memory name: 8 sidecar names x {create, open, open_read_only, doctor} planted as file / empty file / directory / live symbolic link, call, remove, call again; dangling symbolic links; two sidecars at once (which one is reported); "
         "near-miss names that must not refuse (other spellings, sidecars of another memory, NAME.lock, a staging-like name, '-wal' alone); missing and garbage files; one open of a LOCKED memory (10 s retry); "
         "property oracle on the implementation alone: any name in the directory other than the initial files and the memories the harness created, a vanished file, a create/open/open_read_only that ran although one of the eight names (written from the property text) exists, a refusal without one; "
         "non-trivial = the history ran at least one committed staged commit and at least one failing call / discarded staging file (hist), a sidecar or near miss was planted (refuse); distinct by digest of the input",
    level_text="Unbounded theorems over a directory-level model of ensure_single_file, create/open/doctor, with_staging_lock and atomic-write-file (every one of the ten ways a staged commit can end, the O_EXCL retry on random staging names): for every initial directory, every history of API calls with arbitrary success/failure of each, and every prefix, the names in the directory are exactly the initial names plus the targets of create -- outside two known classes (an OS error at the final fsync/rename leaves the staging file; the lockfile API keeps NAME.lock) which are refuted by witness and characterised exactly (the only extra names are the leaked staging names); ensure_single_file refuses iff stat succeeds on one of the eight derived names (first in test order reported), a refused call changes nothing, except for file names that are not valid UTF-8 (third known class). Suffix lists regenerated from the source; successful exit tied to the C02/C03 staged-commit recognizer. Model tied to the code by histories on real memories with really failing calls, directory listing and inotify events after every call, and the refusal matrix.",
    level_note="Property as stated is REFUTED in three narrow classes recorded as known findings (commit-rename-error-leaves-staging, lockfile-guard-sidecar, non-utf8-name), all three reproduced on the implementation in every run; proved outside them. Doctor is not named by the property text ('create/open refuse'): the model follows the code (doctor_plan calls ensure_single_file first, so doctor refuses too) and the correspondence checks it, but the property oracle demands refusal only of create/open/open_read_only. 'Exists' is Path::exists (stat follows links): a dangling symbolic link under a sidecar name does not refuse; modelled and checked, not flagged. Trusted: Coq kernel + vm_compute; hand-written model (file contents are C02/C03's business, here only names); inotify as the record of directory operations; which exit a discarded staging file took (copy vs closure) is the harness's knowledge of the limit it set; Tantivy's scratch directory is TempDir::new() in the system temporary directory (checked by the listing, true unless TMPDIR points at the memory's directory); features parallel_segments (*.manifest.wal) and replay (NAME.session) are not default and outside the configuration under test.",
    trusted_base=["inotify (IN_CREATE, IN_DELETE, IN_MOVED_FROM/TO) as the record of the directory operations of each call", "RLIMIT_FSIZE + ignored SIGXFSZ to make writes fail with EFBIG inside a commit; a directory placed under the memory's path to make the final renameat fail with EISDIR",
                  "the two suffix arrays of ensure_single_file are regenerated into Gen/Consts.v by tools/translate.py (name_lists) and tied by reflexivity (C19_suffix_lists_tied)"],
    assumptions=["outside the known class io-leak: no OS error at fchmod/fchown right after the staging file's creation, at the fsync/renameat inside AtomicWriteFile::commit, or at the unlinkat of a discard (every other failure point is covered)",
                 "no other process adds or removes names in the directory during the history",
                 "default feature set (no parallel_segments, no replay); TMPDIR is not the memory's directory"],
    allowed_axioms=[],
)

PROPS["C17"] = dict(
    corr_module="Corr.C17",
    streams={"hist": dict(runner="C17_run", in_t="C17_in", out_t="C17_out", shard=8, imports=["Model.LockTable"])},   # streams "oracle" and "strace" are checked by the implementation oracle only
    n_quick=33, n_thorough=140,
    harness_timeout=1500,
    corpus_seeds=[(17001, 3)],   # log pre-sizing / growth before the first commit, then a second process knocks (caught a seeded unlock through a clone)
    rule="corpus first (seed 17001): log pre-sizing by begin_batch(wal_pre_size_bytes) and log growth inside batch-mode puts BEFORE the first commit, then four child processes at once try Memvid::open / open_read_only / doctor / a non-blocking flock while the writer is alive. "
         "Then 23 scripted histories (the F-C17-1 witness create; open(refused, 10 s); commit; open(granted) + lost commit, both opens repeated from a child process; put before the first commit; vacuum; "
         "close + reopen; doctor on the closed file, then open; doctor against a live handle before / after its first commit; vacuum then drop; an opener WAITING in the retry loop (thread) while the writer "
         "commits twice and closes / just closes / is killed; kill (exit without commit); three writers; create on the path of a live writer (F-C17-2); one oracle-only history: put + commit after a doctor ran on the handle's inode; every operation that rewrites the file in place before the first writer's first commit -- begin_batch pre-size, growth inside batch puts, a single put larger than the 64 KiB log region, enable_vec / enable_lex, apply_ticket, pre-size + growth after close and reopen (data really shifted) -- each followed by the four child-process probes and an in-process open; oracle-only: downgrade_to_shared (second writer refused, reader admitted) and the upgrade by the next put; oracle-only and in the corpus: a FAILED upgrade -- writer A (reopened, no commit of its own) downgrades, a child process holds the shared lock (open_read_only, kept until released), A's put is refused after the 10 s retry and A must still report is_read_only() (else writable-without-lock), the reader leaves, B opens, A's next put must be refused against B's lock (two writable handles on one inode = two-writers-same-inode), B commits) "
         "+ random histories of 5-11 ops over up to 5 handles (put, commit, vacuum, open, drop, kill, doctor, pre-size, begin/end_batch, apply_ticket, enable_lex, enable_vec; at most one refused blocking open each; put -> commit kept adjacent once a lock sits on a replaced inode, "
         "no put by a handle whose inode a doctor rewrote: the model's log region is positional), 12 histories in parallel. Real handles live in one process on separate open file descriptions (flock is per description). "
         "Compared after EVERY step: call Ok / refused, path st_ino changed, non-blocking flock probe on the path (FileLock::try_acquire) refused or a waiter pending on that inode, per live handle whether its lock descriptor's st_ino "
         "differs from the path's; at the end every live handle's frame table and the table a fresh open shows. Oracle on the implementation: never two live writable (not is_read_only) handles / a doctor with write access next to a live handle "
         "(class by st_ino: lock inode <> path inode -> inode-replaced-under-lock, else two-writers-same-inode), every frame whose commit returned Ok is in the final file, a create refused on the lock leaves the file length unchanged, "
         "child-process open agrees with the in-process one; a child process let in (exclusively, or as reader next to a live writable handle) while a handle's lock descriptor is on the path's inode is two-writers-same-inode / lock-released-while-writer-alive (not listed: VIOLATION); stream strace: a writer process (create, pre-size, enable_vec/lex, apply_ticket, puts, growth inside put, commits, vacuum, drop) under strace -y -e flock: no flock(LOCK_UN) on the memory file before the handle is dropped, exactly one grant. non-trivial = a refused call or two live writers; distinct by digest of the op list; histories hit by a Tantivy start-up error under load are retried, then excluded and tagged",
    level_text="Unbounded theorems over a model of the lock table at the level of inodes and open file descriptions (flock per description, released with the last descriptor, per inode, rename moves no lock), any number of handles, "
               "any interleaving of open (cut at the rounds of its retry loop) / create / try_open / put / commit / vacuum / drop / kill / doctor. Correct protocol (lock follows the inode, opener re-validates): at most one live writable handle, "
               "its flock on the inode the path names, its view equal to the file, commits keep every frame, a refused open/create changes nothing. Implementation model (self.lock stays on the replaced inode): the property is REFUTED "
               "(create; commit; open -> two writers; lost commit; waiting opener; create truncates before locking) and PROVED outside the class 'a live handle's flock is on an inode the path no longer names' and for every history without an "
               "inode-replacing step; per inode the lock works. Model tied to the code by differential histories on real handles incl. child-process opens.",
    level_note="Known findings F-C17-1 (lock stays on the inode a commit replaced: second writer admitted, commits silently lost) and F-C17-2 (create truncates before it locks). Trusted: Coq kernel + vm_compute; hand-written model of src/lock.rs, "
               "Memvid::create/open/try_open, with_staging_lock's descriptor handling, Drop, doctor's try_open (tied by correspondence); flock/rename semantics as stated in Model/LockTable.v (OS oracle); commit atomic in the model "
               "(the steps inside with_staging_lock are not interleaved); shared-lock readers, downgrade/upgrade, and two handles appending to one inode's log region at once are not modelled; harness.",
    trusted_base=["strace -f -y -e trace=flock,unlink,unlinkat for the writer's flock calls (markers = unlink of C17MARK-<op>); skipped with a tag when ptrace is unavailable",
                  "flock(2)/rename(2) semantics as written at the top of Model/LockTable.v: lock per open file description, exclusive conflicts with every other description's lock on the inode, released at unlock or last close, rename touches no lock",
                  "a handle owns its descriptions (no fork / descriptor passing); the lock table is the collection of the handles' lock descriptions"],
    assumptions=["commit (with_staging_lock) is one atomic step of the model; a blocking open is cut into open(path) / each round of the retry loop / give up",
                 "open_read_only (shared lock), downgrade_to_shared / upgrade_to_exclusive are not modelled (exercised against the implementation oracle only: history oracle-downgrade, child open_read_only probes): a read-only handle cannot write (its WAL is read-only: put returns 'wal is read-only' even after ensure_writable)",
                 "log records of two handles writing one inode's region overwrite each other by byte offset; the model is positional (write position per handle) and the correspondence histories avoid concurrent appends",
                 "try_recover_from_wal_corruption's blocking lock_exclusive (doctor on a corrupted log) is not modelled"],
    allowed_axioms=[],
)

PROPS["C41"] = dict(
    corr_module="Corr.C41",
    streams={"sched": dict(runner="C41_run", in_t="C41_in", out_t="C41_out", shard=3, imports=["Model.Store", "Model.Enrich", "Corr.C01"]),
             "real": dict(runner="C41_real_run", in_t="C41_real_in", out_t="C41_real_out", shard=3, imports=["Model.Store", "Corr.C01"])},
    n_quick=20, n_thorough=240,
    harness_timeout=3000,
    rule="STOP COVERAGE: the handle's stop flag is input state of the loop -- fixed first cases (run on every invocation): stop() BEFORE run_worker_loop is entered with two committed queued documents waiting and the worker offered steps (must return without running one critical section), the same on an empty memory, and stop between every pair of worker steps (0..6 worker steps before the request over two loop iterations at checkpoint_interval 1), each followed by further queued puts + commit after the request and a SECOND stop; generated cases: stop at a random position of the history with the foreground carrying on, stop again at the end, pre-stopped handle 1 in 8; free-running stream: start_enrichment_worker followed immediately by stop() (races with loop entry), and drain / stop / three more queued puts / stop. The stop oracle COUNTS what the worker did after the request (canonical position; gets must be 0, frames processed at most the one it was holding, checkpoints at most 1, critical sections at most 3; zero of everything for a pre-stopped handle; free-running: frames_processed after the request at most 1); the clock only bounds how long the harness looks and on its own yields the tag inconclusive_stop_timeout, not a violation. stream sched (3/4 of the cases): the real run_worker_loop with the four closures of start_enrichment_worker (same bodies, each behind a gate) against a foreground thread whose calls pass the same gate; "
         "a generated token plan decides which thread runs its next critical section, so the interleaving is chosen by the generator: 0-8 worker steps between two foreground calls, "
         "checkpoint_interval in {0,1,2,3,100}, foreground calls put (20-300 B text or 2.5-4 KB chunked; instant_index x enable_embedding in all four combinations, so queued and unqueued documents), "
         "update with/without payload, delete (preferring queued documents, sometimes an uncommitted id), commit, search, process_all_enrichment, stop (see above; with or without first waiting for the queue to drain when it is the only one); "
         "fixed first cases 0-2: put / worker get+process+complete / commit (F-C41-1), put+commit / get / drain / process+complete (F-C41-2), commit landing between get and process; "
         "every critical section logs under the mutex what it did and saw; the logged order IS the schedule replayed through the model; compared per step: kind of step (idle get / get / process ok / process error / complete / checkpoint / final checkpoint / foreground call), "
         "returned value, queue length, first task, frame_count, next_frame_id; at the end: frame table (id, uri, content tag, role, status, links), enrichment_state of every frame, frames_processed, errors, stopped. "
         "stream real (1/4): the real start_enrichment_worker thread (task_delay_ms 0, checkpoint_interval in {1,2,3,100}) running freely against a foreground thread issuing 5-11 calls in groups of 1-3 per lock acquisition with random yield_now / 50 us - 40 ms sleeps; "
         "then commit, wait for the queue to empty, stop(), wait for is_running() = false, commit; compared with the model: final frame table against the C01 reference model applied to the acknowledged foreground calls. "
         "Property oracle on the implementation (both streams): acknowledged document missing / other content; unqueued frame seen Searchable; a state moving Enriched -> Searchable; queued, committed, Active frame still Searchable with the queue empty; a task processed twice; "
         "frames_processed != number of queued puts (real stream); errors inconsistent with the un-enriched frames; stats() inconsistent with the closures that ran; a second get after stop; a checkpoint before the interval; queue not empty 60 s after the foreground went silent; worker not stopped 60 s after stop(). "
         "non-trivial = the worker processed at least one task (and ran at least 3 critical sections in stream sched); distinct by digest of the schedule / history",
    level_text="Unbounded theorems over a model of run_worker_loop (state machine: top/get, process, complete, checkpoint, stopped), the four closures of start_enrichment_worker, next/process/complete_enrichment_task, mark_frame_enriched, process_all_enrichment and the queue push of put_internal, on top of the C01/C06 frame-table model; a schedule is ANY merge of worker critical sections and foreground calls (put, update, delete, commit, search, drain, stop), any checkpoint_interval. "
               "Proved for all schedules: the exposed frame table is the C01 reference table of the acknowledged foreground calls alone; queue, marked and processed ids are ids queued by a put; the queue has no duplicates; the in-flight task is the first task or already removed; a never-queued frame never changes state; every queued id is still queued, Enriched, processed-before-commit or processed-when-no-longer-Active; "
               "the stop flag is INPUT state of the loop (run_pre iv b: entered with flag b; entry does not touch it) and is never cleared by anyone; a loop entered with the flag set processes nothing and exits at its first step, for every schedule; a stop requested at ANY position of ANY schedule (pre ++ FStop :: post, either entry flag, anything after it including further puts and stops) lets the worker process at most the one task it was holding (none at the loop top, where its next step is the exit), fetch no new task, and leaves it exited within 4 of its own steps; with a silent foreground 4k+3 worker steps empty a queue of k tasks and, if nothing is pending, every live unprocessed task ends Enriched. "
               "'Every queued frame ends Enriched' is REFUTED (task processed before its put is committed: dropped with 'Frame not found', frame Searchable for ever; F-C41-1) and proved outside that class; 'exactly once' is REFUTED (public process_all_enrichment between the worker's get and complete: processed twice; F-C41-2) and proved outside that class. "
               "Tied to the code by gated runs of the real run_worker_loop compared step by step and by free-running runs of the real worker thread.",
    level_note="Known findings F-C41-1 (enriched-before-commit) and F-C41-2 (drain-overlaps-worker). Partial: (a) thread scheduling itself is not modelled (a stop() racing with the thread's first instruction is covered as the two entry flags b = true / false) -- the theorems are about every sequence of critical sections, the mutex is trusted to make them atomic; the lock-free stop test is merged with the critical section that follows it (a stop() landing between the two commutes with that section; the harness reorders that one logged get accordingly); "
               "(b) Tantivy updates and full-text re-extraction inside process_enrichment_task are outside the model (an index-update error would still mark the frame Enriched and count an error; never observed, flagged by the oracle as process-error if it happens); (c) frame table half under the side condition of C01 (run_ok); (d) start_enrichment_worker_with_embeddings does not use run_worker_loop at all (one process_enrichment_with_embeddings call under a single lock, stop is never read): not covered; "
               "(e) in the free-running stream the schedule is not observable, so only schedule-independent consequences are compared with the model (frame table) or checked by the oracle (counters, states); the step-by-step comparison uses copies of the four closure bodies of start_enrichment_worker (they are closures inside that function and cannot be called separately).",
    trusted_base=["std::sync::Mutex makes every closure body and every foreground call atomic with respect to each other",
                  "oracle inputs of each store call as in C01 (auto-checkpoint happened, extra log records, number of chunks); `extra` of a worker checkpoint read from the WAL counters inside the instrumented closure",
                  "Tantivy (delete_frame/add_frame/soft_commit in update_tantivy_for_enrichment) and extract_full_text are not modelled",
                  "the harness gate (a condvar in front of each closure / foreground call) and its log"],
    assumptions=["as C01: no I/O errors; update/delete targets are Document frames", "updates are issued without instant_index (an update never queues)",
                 "extraction is never time-limited ('skim') on the generated texts, so needs_enrichment = instant_index && enable_embedding",
                 "fairness (liveness theorems): the worker gets the stated number of steps"],
    allowed_axioms=[],
)

PROPS["C29"] = dict(
    corr_module="Corr.C29",
    streams={
        "unlock": dict(runner="C29_unlock_run", in_t="C29_unlock_in", out_t="C29_out", shard=40),
        "lock": dict(runner="C29_lock_run", in_t="C29_lock_in", out_t="C29_out", shard=40),
    },
    n_quick=3, n_thorough=18,
    harness_timeout=3000,
    rule="n = number of capsules. Per capsule: a random file starting with MV2\\0 (size classes: 2 MiB + 1..40 B = three records with a short last one, 4-120 B, exactly 2 MiB, exactly 1 MiB, "
         "1 MiB + 1..40 B, 1000-900000 B, 2 MiB + random, exactly 3 MiB, 4 B, 1 MiB - 1), random password of 0-12 bytes, locked by the real lock_file (feature `encryption`); the capsule is compared "
         "with the model's (lock stream; 4 files that are not .mv2 files must be refused). Then 40-110 faulted copies are given to the real unlock_file: intact; truncation at -1, 0, +1, +3, +4, +5 of every record "
         "boundary and of the file end (thorough, first capsule: every offset within +-8), at 63..68 around the header end, 3 random offsets; one bit flip per header field (magic, version, kdf, cipher, salt, nonce[0..4], "
         "nonce[4..12], original_size, reserved[0], reserved[1..3]), in 3 bytes of a length prefix, in a ciphertext body, in a tag, in the first ciphertext byte; adjacent records swapped, first and last swapped, "
         "first / middle record dropped, two equal-length ciphertexts swapped under their length prefixes, last / first record duplicated; 1, 2, 3, 4, 5, 20 bytes appended; wrong password; a record presented as a "
         "one-shot capsule (reserved[0] = 0, nonce counter = its index, original_size = its plaintext length), the same with a wrong size, reserved[0] := 0 alone. Compared with the model: Ok + the plaintext written "
         "(as runs of the original file) or the error kind. Oracle on the implementation: Ok on a modified capsule / wrong password, written plaintext different from the file, destination present after an error, panic. "
         "non-trivial = a faulted capsule, or an intact one with at least 2 records; distinct by digest of (capsule, fault)",
    level_text="Unbounded theorems over a line-by-line model of lock_file_stream / unlock_file / unlock_file_stream / unlock_file_oneshot / Mv2eHeader / write_atomic with the chunk size a parameter and Argon2 / AES-256-GCM as "
               "arbitrary functions satisfying the ideal-AEAD laws: for EVERY .mv2 file, password, salt, nonce and chunk size unlock(lock f) = f byte for byte; a record replaced by anything that is not a valid ciphertext "
               "for its position (bit flip in ciphertext or tag) -> Decryption error; a record at the wrong position (swap, replay, drop) -> Decryption error; a cut inside a chunk -> I/O error; a failed unlock leaves the "
               "destination untouched. The property as stated is REFUTED (general theorem + vm_compute witnesses): for every file and every m the capsule cut after its m-th record (or up to 3 bytes into the next length "
               "prefix) unlocks without error to the first m chunks; original_size, reserved[1..3] and nonce[4..12] are ignored; 1-3 trailing bytes are ignored; a record presented as a one-shot capsule is accepted. "
               "Proved outside the truncation class (streaming path): any presented byte string whose records are not forgeries and are at least as many as the file's chunks either fails or yields exactly f.",
    level_note="Partial. Known findings F-C29-1 (truncated-at-chunk-boundary), F-C29-2 (unauthenticated-header-field), F-C29-3 (trailing-partial-length-prefix), F-C29-4 (stream-to-oneshot-downgrade), all reproduced on the "
               "implementation on every run. The clause 'ANY modification fails' is proved per modification kind, not as one theorem over all byte strings outside the four classes; the outside-known theorem covers the "
               "streaming path only. Trusted: Coq kernel + vm_compute; hand-written model (tied by correspondence: the same Gallina functions, instantiated on runs of literal bytes and opaque tokens so that MiB-sized "
               "capsules can be evaluated; that instance is not proved equivalent to the byte instance); AES-256-GCM and Argon2id as ideal primitives.",
    trusted_base=["Argon2id is a Section variable kdf (arbitrary function); AES-256-GCM is a pair (enc, dec) with dec_enc, enc_len (+16), dec_sound, enc_bind (a ciphertext is bound to its key and nonce) as hypotheses of the theorems that need them",
                  "in the correspondence run the AEAD is the table of (nonce, plaintext run, ciphertext run) that the real aes-gcm crate decrypts under the real Argon2id key (candidate nonces: model's formula and 4 variants), the KDF is the table of the one derivation made; anything else does not decrypt",
                  "the token instance of the model (Corr/C29.v: run_split, run_lit, norm) is trusted code of about 40 lines",
                  "vec![0u8; chunk_len] for a crafted length prefix (up to 4 GiB) is assumed to succeed; the harness flips only bits that keep a length below 16 MiB",
                  "harness/Cargo.toml enables memvid-core's `encryption` feature (additive) and optimises the argon2 / aes-gcm crates"],
    assumptions=["an .mv2 file = a byte string below 2^64 bytes starting with MV2\\0 (lock_file refuses anything else: checked)",
                 "chunk size 0 < cs, cs + 16 < 2^32 (ciphertext length as u32); reads from a regular file return full chunks",
                 "fewer than 2^64 chunks (chunk_index: u64)",
                 "no-forgery hypothesis of the integrity theorems: a presented record is either a ciphertext lock issued or decrypts under no key/nonce (what AEAD integrity gives)"],
    allowed_axioms=[],
)

PROPS["C10"] = dict(
    corr_module="Corr.C10",
    streams={
        "post": dict(runner="C10_run", in_t="C10_in", out_t="C10_out", shard=12, timeout=1500),
    },
    n_quick=6, n_thorough=120,
    harness_timeout=3000,
    rule="n corpora, each one real memory: 5-40 documents (sizes cycling 5-9 / 10-18 / 19-30 / 31-40) of 8-600 chars over a 38-word vocabulary with stem variants (run/running, plan/planned/planning, city/cities), "
         "multi-byte words, mixed case, sentence punctuation, newlines; uri (four directories incl. a case variant, some with #fragment, some absent), title, 0-3 tags, 0-2 labels, track, explicit timestamps over 30 days; 0-2 chunked documents (2.6-4 kB: chunk frames); "
         "0-2 updates and 0-2 deletes then commit. Three read points: committed; pending (1-4 uncommitted puts with instant index on/off, a pending delete, a pending update); committed + reopened. Per read point 24 / 13 / 24 requests: random query AST of depth <= 3 "
         "(words drawn from the corpus 4:1, phrases of 2-3 consecutive words, wildcards, tag/label/track/uri/scope terms, date:[a TO b] with at least one bound, AND/OR/NOT; 1 in 10 a query without text token: seedless wildcard alone or with field terms) printed with minimal parentheses, explicit or implicit AND, random keyword/field case, quoted or bare values; "
         "top_k 0-10, snippet_chars {0,40,80,120,200,400}, request uri (exact / upper-cased / without fragment / prefix) 1 in 6, scope 1 in 6, no_sketch 3 in 4; date:[* TO *] is never generated (it panics inside tantivy: separate finding). "
         "Stream post (answered by the Tantivy pipeline, >= 1 hit; per read point the first responses whose case terms fit a 54 kB budget -- the others are checked by the property oracle only, stream post-oracle-only): compared with the model = rank, frame id, range, text, matches, chunk range, chunk text length, score of every hit, total_hits and next_cursor (exactly when the page is not full, as lower bound otherwise); the model gets the query TEXT (parsed by C32's model), "
         "the response's own candidate frames in response order + up to 2 decoy candidates that the real evaluator (verif_hooks::evaluate_query) or the request filter rejects + stale ids, the relevant part of the frame table (candidates in full; parents / sibling chunks as skeletons with payload length), the stemmed tokens recomputed with Tantivy's analyser chain. "
         "Property oracle on every response with hits (own evaluator over the generated AST, own uri/scope check): frame exists and is Active, lower-cased search text satisfies the query, uri/scope satisfied, <= max(1,top_k) hits, ranks 1..n, text = content at range (unchunked: frame_text_by_id; chunk: the parent's concatenated chunk payloads, or the chunk's own text), range inside chunk_range. "
         "Responses answered by the filters-only route get the same property oracle (stream fallback, no model comparison). Responses without hits / errors are recorded in the distribution only (stream other). non-trivial = a hit and (a decoy culled or >= 2 candidate frames); distinct by corpus digest + read point + request number",
    level_text="Unbounded composition theorem over a line-by-line model of try_tantivy_search after the engine call (post-evaluation loop with the stale / uri / scope / resolve_chunk_context / parsed.evaluate / empty-slices culls, recency re-sort as an oracle, hit assembly), uri_matches, resolve_chunk_context with document_chunk_payloads / document_chunk_frames, collect_token_occurrences, importing C32's evaluator, C35's slices and str slicing and C16's cursor: "
               "for ANY engine output (arbitrary candidate (frame id, score) list), ANY analyser output, ANY re-sort returning members of its input, any table / query / request: at most max(1,top_k) hits, ranks 1..n, every hit names a frame of the table that is one of the engine's candidates, passes the request's uri/scope filter, whose lower-cased search text satisfies C32's eval of the parsed query (date ranges included: DateRange::matches is the evaluator's TDate case), "
               "hit.text = chunk_text[range - chunk start] sliced on char boundaries and non-empty, range inside [chunk start, chunk start + |chunk text|] = chunk_range for valid UTF-8 payloads; the pipeline never panics (C35's call-site theorem); hit assembly is C16's page loop (simulation lemma). Active: from C08's index invariant + 'the engine returns indexed documents' (the loop itself does not read frame.status). "
               "Second pipeline: search_with_lex_fallback proved for any legacy-index answer (partial: index content / uri filter / active rest on the index); search_with_filters_only (reached through the public API by a seedless wildcard the engine rejects) as repaired by /repo dcf427c: every hit names an existing ACTIVE frame (status is checked by that loop itself) that passes uri/scope, lies in the candidate filter and satisfies eval, for any table with ids = positions; the two former findings F-C10-1/F-C10-2 (found by this check on the old code) are kept as regression examples.",
    level_note="PROVED for the Tantivy pipeline for any engine output and for the repaired filters-only route (the route's defects F-C10-1 / F-C10-2 found by this check were fixed in /repo dcf427c; the harness oracle treats those classes as plain violations). Partial: 'active' rests on the engine oracle returning indexed documents (C08); the legacy-index pipeline rests on that index. "
               "Trusted: Coq kernel + vm_compute; hand-written model tied by correspondence on real memories; raw engine hits are not observable (no hook), so the model is fed the response's own frames plus decoys rejected by the real evaluator; the recency re-sort is an oracle (its order is compared by C16); Tantivy's analyser is recomputed in the harness (rust-stemmers, same crate version); "
               "side observation (not C10): when every engine candidate is culled and no legacy index exists, Memvid::search returns Err(LexNotEnabled) instead of an empty answer.",
    trusted_base=["engine oracle: arbitrary candidate list in the theorems; in the correspondence the response's own frames (response order) + decoys + stale ids",
                  "engine.analyse_text (private) recomputed as alphanumeric runs -> lower-case -> Snowball English (rust-stemmers 1.2.0, the crate Tantivy links); a wrong recomputation shows up as a range mismatch",
                  "recency re-sort: Section variable with hypothesis 'returns members of its input'; identity in the correspondence (candidates are given in response order)",
                  "payload oracle: per frame the decoded canonical payload (length, from_utf8_lossy text) read through frame_canonical_payload; sibling chunks carry the length only",
                  "UTF-8 decoder of the case files is glue in Corr/C10.v, every decoded text is re-encoded with the model's encoder and compared",
                  "C32's oracles char::is_alphanumeric / parse_date_value as finite tables from the implementation"],
    assumptions=["resort returns members of its input (any permutation / selection does)",
                 "range inside chunk_range: payloads of the table are valid UTF-8 (payloads_utf8); search-text chunk contexts need nothing",
                 "never panics: every evaluation text shorter than 2^63 bytes (a Rust String is), snippet_chars < 2^64",
                 "active: engine candidates are documents of the engine (lex r), no instant-indexed put waits for its commit (tdirty = false), table statuses = the store's",
                 "filters-only route: frame ids = table positions (C06)"],
    allowed_axioms=[],
)

PROPS["C28"] = dict(
    corr_module="Corr.C28",
    streams={"hist": dict(runner="C28_run", in_t="C28_in", out_t="C28_out", shard=3, imports=["Model.Store", "Model.Reads", "Model.Persist"])},
    n_quick=15, n_thorough=240,
    corpus_seeds=[(28001, 2), (28101, 1)],   # 28001: log growth inside a commit (lex-batch record), plain and after a reopen (caught a seeded reordering in update_embedded_lex_snapshot); 28101: a commit holding only delete_frame tombstones, then the four handles with frequent-OR-rare queries (catches a delete-only shortcut in rebuild_indexes that keeps stale BM25 statistics)
    harness_timeout=3000,
    rule="histories of 6-22 ops on a real memory, three random profiles (general; blank / binary frames that break sketch-id density; instant-indexed puts with default options) and a fourth, steered profile (every fourth history, and the two corpus histories run first): the embedded log is driven adaptively (wal_stats / header_fields hooks: region size, pending bytes, checkpoint position; binary filler puts sized from the measured record overhead) until, with document records pending, the write head is a chosen 0..1200 bytes (swept in steps of 100 across histories) from the region end, so that the lex-batch record flush_tantivy appends INSIDE the commit makes the log region grow (tag log-grew-in-commit; variants: growth in the put just before the commit, two growths 64 -> 128 -> 256 KiB, growth in the commit of a handle reopened with the head near the end); the four-handle comparison runs immediately after that commit and again after the next put + commit; a fifth, scripted profile (every fifth history and one corpus history): two documents holding a rare / a frequent term, 4-7 filler documents sharing the frequent term, commit, (variants: reopen), a commit that holds ONLY delete_frame tombstones of all or all but one filler documents, then at once the four handles with doctor{rebuild_lex_index} forced, then one more put + commit + four handles; the battery has four OR queries over the frequent and the rare term whose answers carry the BM25 score bit patterns besides the hit order (the engine's document statistics must be those of the active frames on every handle); puts of short text / chunked text >= 2500 chars / whitespace-only / binary payloads, "
         "with or without a 4-dimensional embedding, explicit uris reused across frames, track / tag / label options, instant_index on or off, update_frame with and without payload / embedding on live, inactive and missing ids, delete_frame likewise, commit, reopen, exit-without-commit + reopen; "
         "at up to four fully committed points per history the file is byte-copied three times and FOUR handles are read: live, copy reopened read-write, copy opened read-only (Memvid::open_read_only), copy opened after doctor{rebuild_lex_index and/or rebuild_time_index, in half of the points also rebuild_vec_index}; "
         "compared with the model for each handle: frame count, engine documents holding the probe word, vector-index ids, vec enabled, time-index ids, sketch ids in track order (the reopened handles must show the renumbered ids 0..n-1), per-op result / frame_count / next_frame_id, "
         "and at points with pending records the ids a search for the probe word returns (engine documents incl. instant-index temporaries, restricted to the table); "
         "property oracle (independent of the model): a battery of 30 lexical queries (single words, AND / OR / NOT, phrase, track: / tag: / label: / uri: / scope: terms, uri and scope request filters, three date ranges; top_k 7 or 50; no_sketch = true), 5 vector queries (k = 1, 3, 10, 100, 10^5; distance bit patterns) and 4 timeline queries (all, reverse + limit, since, since + until + limit; with child frames) "
         "must give identical ordered (frame id, range) lists / totals / error kinds on the four handles (handles-differ; only exception: doctor{rebuild_vec_index} on a memory without vector index must answer the empty list where the live handle answers VecNotEnabled, else doctor-vec-not-empty); the same lexical battery with the sketch pre-filter on, a difference being the known class prefilter-sketch-ids-not-dense only when the live sketch ids are not 0..n-1 (else prefilter-differs); "
         "between a put and its commit searches for words of pending documents, of committed documents and common words, with and without the pre-filter: every hit must be a frame whose text contains the word (precommit-hit-without-query), hits outside the table must be pending documents put by the harness; "
         "non-trivial = at least one four-handle point on a memory with >= 3 frames (profile 2: also a pre-commit read); distinct by digest of the op list",
    level_text="Unbounded theorems over a model with an explicit file image (Model/Persist.v on Model/Reads.v / Model/Store.v): commit_from_records persists exactly what rebuild_indexes / flush_tantivy / persist_sketch_track write (time index from the table, the engine's documents as embedded segments, the vector artifact, the sketch entries without ids), "
               "Memvid::open / open_read_only / doctor build the handle from the image only (init_tantivy trusts listed segments, else rebuilds when counts differ; load_vec_index_from_manifest; read_sketch_track renumbers). Proved for EVERY history by an invariant over the operation list: "
               "the machine that reloads from the image is step for step the machine of C08 that keeps the sets in memory; for every fully committed state the reopened read-write, read-only and doctored (any subset of rebuild_lex / rebuild_time / rebuild_vec) handles hold the live frame table, Tantivy documents, vector index and time index, hence search / vector search / timeline "
               "(engines as oracles over what the handle holds) answer identically outside the class of F-C39-1; inside it the statement is refuted by a three-step witness; doctor{rebuild_vec_index} keeps the vector index and leaves vector search enabled (code since 83a83e8; the earlier emptying, F-C14-1, only as the historical lemma C28_doctor_vec_rebuild_emptied_unfixed); between a put and its commit every hit is a committed frame on which the query evaluates to true and never the temporary document (id next_frame_id, not in the table). "
               "The vector and time-index parts are also derived on the C14 / C15 models (load after persist, doctor rebuild_time_index).",
    level_note="Property as stated is REFUTED in one class, recorded as known finding prefilter-sketch-ids-not-dense (= F-C39-1 seen from Memvid::search: the sketch track stores no frame ids, a reopened handle renumbers its entries, so the pre-filter's candidate set changes whenever some frame has no sketch entry); proved outside it. doctor{rebuild_vec_index} on a memory that has no vector index enables an empty one: vector search then answers [] instead of VecNotEnabled (stated in C28_same_answers_outside_known). "
               "Partial: Tantivy's search (BM25 ranking, tie order, the frame filter), ParsedQuery::evaluate / snippet slices, the sketch test of one entry and the vector ranking are Section variables that answer from what the handle holds - equal sets give equal answers by construction, the four-handle battery on real memories is what ties ranking and tie order to the code; "
               "the candidate set of find_sketch_candidates is modelled for tracks of at most 500 entries (below the truncation); the legacy LexIndex fallback is not modelled (Tantivy-only memories never have its manifest; when every Tantivy hit is culled search returns LexNotEnabled, the same on all handles); Quiet (nothing pending, not dirty) is the hypothesis 'committed history'. Not generated (frame-table model limit, Model/Store.v OUpdate = one insert record): update_frame WITHOUT payload on a chunked document - put_internal re-extracts the reused text and re-chunks it, one call appends a new parent plus new chunk frames (observed: next_frame_id 11 -> 15); chunked documents are updated with a new short payload instead, and chunk frames are never update / delete targets (C01's side condition). The file image of Model/Persist.v holds the index SETS, no byte offsets: log growth (shift of everything behind the log, adjust_offsets_after_wal_growth patching the TOC's offsets, the order of catalog update and append_lex_batch inside update_embedded_lex_snapshot) is outside the model; for that class the tie is the four-handle oracle on real files, reached on every run by the steered profile and the corpus (tags log-grew-in-commit, room-at-commit:N).",
    trusted_base=["engine oracles: Tantivy search_documents over the engine's documents with the optional frame filter, ParsedQuery::evaluate / snippet slices per hit, QuerySketch::score_entry per sketch entry, VecIndex::search",
                  "oracle inputs read from the implementation: auto-checkpoint timing and extra log records (cfg(memvid_verif) wal_stats hook), number of chunk frames, whether a frame's index text holds the probe word, whether apply_records gave a frame a sketch entry (Memvid::sketches())",
                  "the engine's document set is observed through search for a probe word present in every text payload (top_k 5000, sketch filter off); handles other than the live one are opened on byte copies of the committed file"],
    assumptions=["engine oracles answer from the handle's sets only", "fully committed memory (nothing pending, not dirty) for the four-handle theorems", "sketch track of at most 500 entries for the candidate-set model", "no I/O errors"],
    allowed_axioms=[],
)

PROPS["C18"] = dict(
    corr_module="Corr.C18",
    streams={
        "craft": dict(runner="C18_run", in_t="C18_in", out_t="C18_out", shard=1, timeout=1200, imports=["Model.ReadOnly"]),
        "hist": dict(runner="C18_hist_run", in_t="C18_hist_in", out_t="C18_hist_out", shard=6, imports=["Model.Store"]),
        # streams "sys" (strace), "crash" (crash images), "bigtail" (zero tail beyond the 16 MiB window) are checked by the implementation oracle only
    },
    n_quick=6, n_thorough=60,
    harness_timeout=3000,
    rule="n real memories (shared driver store.rs): 2-16 ops (put binary / text / chunked, update with and without payload, delete, commit, reopen, exit-without-commit + reopen) ending in a commit, then 0-4 further "
         "acknowledged puts / updates / deletes that stay in the log (handle dropped through verif_hooks::drop_without_commit); then open_read_only and 3-10 random calls of frame_count / frame_by_id / "
         "frame_canonical_payload / stats / timeline / search / Memvid::verify, plus a walk over the whole frame table. Oracle (implementation alone): BLAKE3 of the file before the session == after the open, after EVERY call "
         "and after dropping the handle; frame_count and the frame table (ids, uris, content tags, status, links) equal the table the writer showed at its last commit; a later writable open still replays the log. "
         "Stream hist compares that table with `committed` of the store model run on the same op list. Stream craft = the first n/3 (small) files after byte surgery, every file: legacy lock bytes 80..140 set "
         "(boundaries 80 / 139 favoured), a TOC whose last Tantivy segment ends 1..5000 bytes beyond the footer, and two further kinds in rotation (thorough: all): untouched, neighbours 79 / 140 / 141 / 4095 set, "
         "junk / cut / wrong-hash footers after the last footer, an older commit image appended, garbage in the header's footer pointer, first log record corrupt (payload bit, length 0, length = region), invalid header field "
         "with and without legacy bytes, segment ending exactly at the footer, tiny files (empty, junk, valid footer over an undecodable TOC, TOC + footer without header, header + junk); plus three opens while a WRITER handle is alive "
         "(with / without a commit before, with legacy bytes planted under the writer). Compared with the byte-level model: open result (frame_count, footer offset, generation, pending log bytes, log sequence | error kind), "
         "outputs of the calls incl. verify's pending-record count, the write trace and the exact file bytes afterwards. Stream sys: the session in a child under strace -f -y, no write / pwrite / ftruncate / fsync / rename / unlink "
         "on the memory file (tag: open flags). Stream crash: children killed at a random mutating syscall, survivor opened read-only: bytes unchanged, view = last completed commit or the commit in flight. "
         "Stream bigtail: 16 MiB of zeros after the last footer (window doubling). non-trivial = records pending in the log (hist) / surgery applied (craft); distinct by digest of the input",
    level_text="Unbounded theorems over a line-by-line model of open_read_only_snapshot / load_tail_snapshot / locate_footer_window / EmbeddedWal::open_read_only / HeaderCodec::read_without_repair / init_tantivy -> "
               "materialize_tantivy_segments -> align_footer_with_catalog (no-op on a read-only handle) / Memvid::verify and the read calls, threading the file bytes and the trace of writes, truncates and syncs, "
               "for EVERY hash function, Toc decoder, window size, lock state, file content and call sequence: (1) the whole session -- including failing opens, files with legacy lock bytes, inconsistent catalogs, corrupt logs -- "
               "has an EMPTY trace and leaves the bytes unchanged, with no side condition (also stated in the C02 alphabet); (2) independently, the trace explains every byte change; "
               "(3) locate_footer_window is sound for every window size, finds nothing iff the file has no valid footer, and is C31's scan for files up to 16 MiB; (4) on the image a commit leaves "
               "(anything ++ TOC ++ footer) a successful read-only open shows exactly that TOC's frame table and generation whatever the log region holds: the view is `committed`, never `view` of the store model, "
               "and writes in front of the TOC (log appends) keep the image. History: the code before /repo ced2099 / e2af843 is kept as open_ro_unfixed with the two vm_compute witnesses of the writes it issued (`_unfixed`). "
               "Tied to the code by byte-exact sessions on real and crafted files, store histories, strace and crash images.",
    level_note="Holds on the current tree. Two defects were found by this check and repaired in /repo (ced2099: header rewritten when legacy lock bytes 80..140 were non-zero, before the shared lock; e2af843: TOC / footer / header rewritten when a catalogued "
               "Tantivy segment ended beyond the footer); both input classes stay in the generator as regression cases and any byte change is a violation. Partial: 'the last valid footer is the last commit' is proved for the image a commit leaves "
               "(file ends at its footer) and checked on real files and crash images, not derived from a model of every write path (C02's domain). Trusted: Coq kernel + vm_compute; hand-written model tied by correspondence; "
               "BLAKE3, Toc::decode + verify_checksum, prepare_toc_bytes as arbitrary functions (finite tables of real values in the runs); reads never write (read_range, Tantivy, time index are not modelled further); "
               "the Tantivy scratch directory is not the memory file; a log region reaching past the end of the file is answered with an I/O error (not generated). Observations recorded as tags: the file is opened O_RDWR (needed by the lock / log types; no write syscall follows); "
               "open_read_only succeeds while a writer handle that has committed at least once is alive (the shared lock is obtained: C17's matter).",
    trusted_base=["hand-written model coq/Model/ReadOnly.v on top of Model/Footer.v (C31), Model/Header.v (C30), Model/Wal.v (C05), Model/Store.v (C01), alphabet of Model/FsProto.v (C02)",
                  "H, toc_decode, toc_reencode, maxw are Section variables in the theorems; in the runs: tables of real BLAKE3 digests, Toc::decode + verify_checksum rows, prepare_toc_bytes images, 16 MiB",
                  "strace -f -y for the syscall stream; crash.rs child + kill injection for crash images"],
    assumptions=["no I/O errors or short reads", "TOC image + footer fit the first search window (TOC below 16 MiB) in the view theorem", "the log region lies inside the file"],
    allowed_axioms=[],
)

PROPS["C22"] = dict(
    corr_module="Corr.C22",
    streams={
        "walscan": dict(runner="C22_wal_run", in_t="C22_wal_in", out_t="C22_wal_out", shard=60),
    },
    n_quick=300, n_thorough=6000,
    harness_timeout=3400,
    rule="walscan (n/2 cases, compared with the model): files of 4096-5000 zero bytes + 0-6 well-formed log records (payload 1-60 bytes, sequence repeats) followed by nothing / a zero header / fewer than 48 zero bytes / junk / a header with length 0 and sequence <> 0 / sequence 0 and length u32::MAX, 2^31 or small; "
         "then a bit flip, a cut anywhere, or the first length field forced (0, u32::MAX, tail-47, random); wal_offset = start of the records (mostly), +0..59, end of file, beyond it, u64::MAX-k, 2^63-1-k, 2^63, before the records; wal_size = 0, 1..47, 48, exactly the records, +0..47, +48 (clipped to the file), exactly the bytes available (region end = file length), one more (refused), more, less, u64::MAX-k, 2^63; checkpoint sequence 0 / last / last+1 / u64::MAX / random; "
         "compared: Ok(pending_bytes, sequence) / error class (size zero, region past end of file, length invalid, checksum mismatch, I/O) of EmbeddedWal::open_read_only. "
         "fuzz (n files, implementation only, each in a child process under RLIMIT_FSIZE 1 GiB, RLIMIT_AS 8 GiB, 20 s CPU, 600 s wall, private TMPDIR): four memories built by the shared driver (text: 8 frames incl. a chunked document, a binary and a deleted frame, two commits; vec: 5 frames with 4-dim embeddings; tracks: memory cards, mesh nodes/edge, sketch track; pending: a commit followed by two puts and a delete that were never committed = crash-left), "
         "each unchanged, the hand-built witnesses of the known classes, truncations at every region boundary -1/0/+1 and at 0,1,3,4,5,79,80,4095-4097, len-57..len-1 (a sample of n/5, one in six followed by random bytes), and per region class (8 header fields, first log record header, log head, whole log, frame payloads, time index header and body, Tantivy segment files, vec index, sketch header and body, memories track, logic mesh, TOC prefix, TOC, TOC tail, footer magic / toc_len / hash / generation): one byte (bit flip, 0, 0xFF, random), 2-16 random bytes, an edge u64 (0, 1, 2^32+-1, 2^63+-1, 2^64-1, 2^59, 2^40, file length +-1, random), zero fill, random fill, two damages in two regions; "
         "random files (0-90000 bytes of three styles) behind a valid header with footer_offset / wal_size forced and optionally a valid footer over random bytes; TOC-consistent damage: one of 30 manifest / frame fields set to an edge value with TOC checksum, footer and header re-stamped, and damage inside the time index / sketch / memories / vec / lex regions with the manifest checksum re-stamped. "
         "Each file, on a fresh copy per entry point: open_read_only + reads, verify(deep), doctor_plan, open + reads, doctor + open + search; reads = stats, frame_by_id / canonical payload / text / preview / embedding / blob_reader for ids 0..4, last, count, u64::MAX, frame_by_uri, 4 timeline queries, 7 searches (word, OR, phrase, AND NOT, date range, uri, no hit), a two-page search, search_vec with 4 and 1 dimensions, sketch stats. "
         "The hand-built witnesses and requests of the repaired findings (time-index count 2^59, sketch count 2^60, log region at 2^40, segment extent 2^32, frame timestamp i64::MIN, cursor / top_k at the usize edges, top_k 2^40..2^61 without the sketch pre-filter, date:[* TO *]) are still generated as regression cases: their class tags are no longer listed as known, a reappearance is a VIOLATION. "
         "Oracle: every call returns Ok or Err; a panic (caught per call in the child, reported with its source location), an abort, a death by a limit or a timeout is a violation tagged by panic site + a predicate on the damaged file; an unchanged memory must be accepted by all five entry points. "
         "req (27 requests on an unchanged memory): top_k / cursor at the usize edges with and without the sketch pre-filter, malformed cursors, date:[* TO *]. "
         "non-trivial = more than five calls answered or some call refused the file; distinct by BLAKE3 of the damaged file",
    level_text="Unbounded theorems, for ALL byte strings / header values, over line-by-line models in which every Rust +, -, *, %, index, slice and with_capacity that can panic in the debug profile is an explicit checked operation: "
               "HeaderCodec::decode / read (C30's model) never panic; find_last_valid_footer (C31's model, structural recursion on search_end) answers for every buffer and inside it; locate_footer_window terminates within 65 doublings and its subtraction, slice and doubling never panic for files below 2^63 bytes; "
               "EmbeddedWal::scan_records / open_internal: with cursor + 48, offset + cursor, cursor + 48 + length, 48 + length, cursor += and the pending-bytes sum as checked additions and % as a checked remainder, no panic for every file below 2^63 bytes, ARBITRARY wal_offset / wal_size / checkpoint values and every hash function, and the loop never exhausts fuel |file|+1 (measure: bytes of the file after offset+cursor; invariant: cursor = 0 or the bytes up to offset+cursor were read); "
               "verify_toc_prefix never panics and accepts exactly (>= 24 bytes, version <= 32, counts <= 10^6, 32*segments + 64*frames <= length); read_toc (len - footer_offset, buf.len() - 56, both slices) never panics for any non-panicking Toc decoder and for the modelled Toc::decode; the bincode decoder never panics for ANY schema and bytes (new generic theorem), hence Toc::decode (all three layouts); ensure_non_overlapping_frames, Mv2eHeader::decode, parse_cursor never panic; the query parser is total (C32). "
               "Repaired in /repo and now proved total (restated against local definitions in Model/OpenSeq.v): time-index read_track with the allocator as an arbitrary oracle (try_reserve_exact: the former capacity class is exactly the error 'entry count too large'), read_sketch_track (an overflowing entry_count * entry_size + 24 is the error 'entry count overflows'), the saturating sizing arithmetic of search (doc_limit in 1..usize::MAX, sketch candidates in 500..usize::MAX, collector limit in 1..max(index documents,1), recency age within i64), and the log open refuses a region that does not lie inside the file (an accepted region satisfies offset + size <= file length). "
               "open_locked is modelled as a decision procedure over abstract decoder / loader outcomes (sniff, header, read_toc, recovery branch with header rewrite, overlap check, log open, generation, the ordered loaders, the final checksum branch): if every component answers Ok or Err, open answers Ok or Err. "
               "Everything else on these paths (serde visitors, Tantivy, zstd, HNSW, doctor's rebuilds, the search pipeline) is covered by the child-process test only.",
    level_note="Partial overall: proof for the modelled decoders, test for the rest. Nine defects found by this check were repaired in /repo (KNOWN_FINDINGS.json 'fixed'); the property is still REFUTED on the current tree in two classes that are recorded, not repaired: F-C22-6 / F-C22-7, Tantivy's own decoders panic in search on embedded segment bytes that are not what Tantivy wrote (original or re-stamped manifest checksum). "
               "Trusted: Coq kernel + vm_compute; hand-written models (the log scan tied by the walscan correspondence; header / footer / TOC / cursor / query models tied by C30, C31, C16, C32's runs; the local restatements of read_track and read_sketch_track follow C30's / C39's byte layouts and are tied only through the whole-file regression cases; verify_toc_prefix, read_toc, locate_footer_window, ensure_non_overlapping_frames and open_locked's control flow are private with no hook: tied only through whole-file runs, see hooks wanted); "
               "OS model: seek fails above i64::MAX, read_exact fails at EOF, files are shorter than 2^63 bytes; memory allocation is an oracle: read_track's try_reserve_exact is modelled with an arbitrary allocator predicate (refusal = Err), elsewhere allocations below isize::MAX bytes are assumed to succeed (scan_records allocates up to 4 GiB - 1 for one record length taken from the file before reading it: bounded, not a panic, noted); debug-profile overflow semantics; Mv2eHeader::decode is not compiled into the harness (feature `encryption` off): modelled, not tied.",
    trusted_base=["BLAKE3 is a Section variable in the theorems; in the walscan run it is the table of real digests of the record payloads",
                  "the child-process runner: prlimit(1) for RLIMIT_FSIZE / RLIMIT_AS / RLIMIT_CPU, a panic hook that records file:line and message, catch_unwind per call",
                  "memory allocation: try_reserve_exact in read_track is an oracle (Section variable alloc_ok), every theorem holds for any allocator behaviour",
                  "class predicates of the file-borne findings are evaluated by the harness on the damaged file (TOC decoded from the header's or the last valid footer's position)"],
    assumptions=["files shorter than 2^63 bytes (off_t), bytes below 256",
                 "hang detection is by CPU time (20 s per child) plus a 600 s wall-clock cap, so that a loaded machine does not produce false hangs",
                 "the fuzz stream's inputs depend on Tantivy's random segment names (the base memories are rebuilt each run): the same seed gives the same damage plan but not byte-identical files"],
    allowed_axioms=[],
)

PROPS["C21"] = dict(
    corr_module="Corr.C21",
    streams={"doctor": dict(runner="C21_run", in_t="C21_in", out_t="C21_out", shard=8, imports=["Model.Doctor"])},
    n_quick=20, n_thorough=480,
    harness_timeout=6000,
    rule="real memories built through the shared driver in five history profiles -- random; and four with the layout idioms that make payload byte ranges shared or out of id order: (1) put A, put B, commit, update_frame(A, None), commit; (2) payload-less update of a middle frame followed by further puts; (3) update with payload of the oldest + delete of the newest + payload-less update of a middle frame; (4) delete + update with payload + payload-less update of the oldest + vacuum (+ a later put) -- each closed normally or crash-left (pending puts / delete / update with payload / payload-less update). The fixed plan that runs first on every seed starts with profile 1 under rebuild_time_index and under a zeroed time index with default options (a wrong payload-region end at open makes the index rebuild overwrite committed payloads: caught there by the oracle as doctor-failed / frame-altered; confirmed on a scratch worktree with compute_payload_region_end seeded), then the repaired and the known class, then the other profiles under every rebuild option. Random profile: (1-3 rounds of 2-4 puts of text/binary documents of 1-2300 bytes, 3 in 4 memories with embeddings, a delete + an update + commit per later round), closed normally or left "
         "crash-interrupted (drop without commit: 1-3 acknowledged puts, optionally a delete and an update, pending in the log); each case = a COPY of the file + one or two targeted damages made with std::fs "
         "(header footer_offset +k / -k / 0 / beyond EOF / = footer position; header toc_checksum byte flipped; checksum stored inside the TOC flipped; footer magic / toc_len / toc_hash / generation byte flipped; "
         "time index / vector index / one Tantivy segment zeroed, regions taken from the public Header, Toc and footer types; outside the list: log region overwritten with garbage, pointer + footer both damaged) "
         "x option sets (quick: fixed plan covering every damage class on a closed and on a crash-left file with default / all-rebuild+vacuum / single flag / dry-run sets; thorough: all 32 on every sixth case, random otherwise); "
         "sequence per case: doctor(options) -> verify(deep) -> doctor(default or the same options) -> open + frame table. Compared with the model: report status, plan findings + run findings (codes, in order), plan phases, "
         "verify passed, second run's status, whether the memory opens, the frame table (status, content tag) read back, the vector count (not compared when both runs are dry runs on a zeroed vector index: the count is then Memvid::open's own doing). Cases with pointer damage + pending inserts (the class of the repaired F-C21-1) stay in the fixed plan and are compared in full; a case in which HealHeaderPointer reports Executed is tagged heal-header-pointer-EXECUTED (none so far: proved impossible on listed files). Property oracle (implementation only; reference = the undamaged copy opened normally, "
         "which replays pending records): doctor status Clean/Healed, every active reference frame present with the same status, content hash and every other column (payload window excepted), verify Passed, second run Clean "
         "(Clean or Healed with the same forcing options), dry run leaves the bytes unchanged. non-trivial = damaged, or pending records, or non-default options; distinct by digest of (file, damage, options)",
    level_text="Unbounded theorems over a coarse model of Memvid::doctor that follows doctor.rs' decision tree (read_toc / recover_toc, probe, compute, try_open incl. header fix-up and log replay, try_recover_from_wal_corruption, "
               "aggressive header repair, phases HeaderHealing / WalReplay / Vacuum / IndexRebuild+apply_pending_rebuilds / Finalize / Verify with reset_wal, header revert, verify, status rule): for EVERY damage of the property's list "
               "(and every combination that leaves pointer or footer intact), every frame table, every list of pending acknowledged records and all 32 option combinations, outside one known class: the result's frame table = committed rows with "
               "the pending records applied (no active frame removed or altered, no acknowledged record dropped), report Clean/Healed with verification passed, the file opens and verifies, a second default run reports Clean "
               "(any second run: Clean iff nothing is forced, never Failed, rows unchanged); dry_run changes nothing on any file. The property as stated is REFUTED in one remaining class (F-C21-2 toc-checksum-field; witness by vm_compute) and proved outside it; F-C21-1 stale-pointer-after-replay was repaired by f76b325 "
               "(HealHeaderPointer only moves the pointer forward: modelled; the old witness is a regression Example that heals, the refutation is kept about doctor_unfixed; the remaining `<` branch is proved never to fire on a listed file). Boundaries stated: unreadable log -> pending records dropped; older intact commit inside the file -> older table restored; pointer and footer both lost -> Failed. "
               "Tied to the code by doctor runs on real damaged files compared field by field with the model.",
    level_note="Partial (coarse model): frame content is a tag, index contents are states (none / ok / damaged); what replay, vacuum and rebuild_indexes do to the rows is taken from C01 / C42 (rows = committed + pending applied; vacuum keeps status and content) "
               "and checked here only end to end on real files. Embeddings are not part of a frame; since fix 83a83e8 (F-C14-1) a vector rebuild re-encodes the entries of the index it loads, so the count of embeddings of active frames is unchanged by doctor on an index that decodes (modelled, proved, compared); an index whose bytes are damaged is the only copy: it comes back holding the pending records' embeddings only (0 on a closed file) -- modelled and compared, tagged vectors-lost(damaged-index). "
               "A zeroed Tantivy segment is invisible to probe, open and verify (doctor reports Clean; detection is C20's). Known finding F-C21-2 (F-C21-1 fixed by f76b325). Trusted: Coq kernel + vm_compute; hand-written model (tied by correspondence); "
               "the abstract description of each damaged file is derived from the damage applied, not re-measured; payload placement (windows, cached_payload_end, where the index area goes) is abstracted away in the model: that class is tied by the property oracle on real files only; harness.",
    trusted_base=["replay of pending records = apply to the committed rows (C01's theorem); vacuum preserves status and content of every row (C42's theorem); both are re-observed on every case through the frame table read back",
                  "the TOC is assumed to move when the replay inserts a frame (new payloads are written from the old TOC offset on) and to stay when it only deletes; the harness always includes an insert among the pending records",
                  "a header whose own magic/version is damaged, I/O errors, lock contention, the legacy lexical index and the parallel-segments vector catalog are not modelled"],
    assumptions=["wf: TOC body decodes, no older intact commit inside the file (counted by the harness: none produced so far), log readable, pointer and footer not both lost",
                 "second run 'Clean' is read as: with default options (a forcing option makes the plan non-empty by construction: Healed)",
                 "vector count input = embeddings of active frames once the readable pending records are applied, a damaged index contributing none (derived by the harness from the undamaged reference copy / the pending puts it made); losing the embeddings of a damaged vector index is not counted as an altered frame"],
    allowed_axioms=[],
)

PROPS["C23"] = dict(
    corr_module="Corr.C23",
    streams={"hist": dict(runner="C23_run", in_t="C23_in", out_t="C23_out", shard=2, imports=["Model.Store", "Model.Reads", "Model.Determinism"])},
    n_quick=10, n_thorough=160,
    harness_timeout=3000,
    rule="histories of 6-20 calls on a real memory, every timestamp explicit (some repeated, some decreasing): puts of binary / short text / chunked text (>= 2500 chars) payloads with and without a 4-dimensional embedding and with explicit, repeated or default uris, "
         "update_frame with and without payload, delete_frame (valid, missing and inactive targets), put_memory_card with explicit created_at, puts with default options (auto-tag, date and triplet extraction, instant index) incl. sentences that yield extracted memory cards, "
         "commit, vacuum, close+reopen, exit-without-commit+reopen; five profiles: binary without deletes / binary with deletes / mixed text / mixed text with default options and cards / TIES: 6-13 puts of one fixed text without uri (identical index text, identical sketch, tied scores) next to other text puts, deletes, reopen. "
         "EVERY history is executed FOUR times on fresh paths: twice in this process and twice in separate child processes (mvharness C23-child). Compared with the first execution: "
         "(1) the logical digest: per-call results incl. log sequence numbers and automatic-checkpoint timing, every field of every frame (serde image, payload_offset apart), content hash of every active frame, timeline both directions with child frames and previews, "
         "~30 searches with no_sketch (16 vocabulary words, multi-word / OR / AND / NOT, uri: field query, words of extracted sentences, document tags; top_k 3 / 10 / 200; rank, frame, ranges, snippet text, total_hits, cursor), "
         "4 vector searches with distance bit patterns, memory cards (created_at apart), stats counters, Memvid::find_sketch_candidates as ORDERED lists (8 queries incl. the tied texts x Hamming thresholds 10 / 32 / 64 x max_candidates 1, 2, 3, half of and all of the entries, 2000: frame, score bits, Hamming distance, matching terms) and 13 searches with the sketch pre-filter ON, both on the live handle and on a handle reopened from the final file (compared across the four executions), and two further opens of the same file compared with each other: ANY difference is a violation (logical-differs); "
         "(2) byte for byte each of 17 region classes of the files, delimited with HeaderCodec::decode, find_last_valid_footer and Toc::decode (header geometry / footer offset / log position / TOC checksum / padding, log region, frame payloads, time index, embedded Tantivy files, "
         "vector index, memories track, sketch track, logic mesh, bytes no manifest points to, TOC, footer length+hash, footer magic+generation): a difference in a class the model tags with no oracle source is a violation (deterministic-class-differs), "
         "differences in oracle-tagged classes are the known finding. Compared with the model (two concrete oracle streams differing everywhere): per-call results, final frame table, time-index ids, vector-index ids, card count, "
         "and the consistency of the observed per-class difference bits with the tagging (observed => tagged; model images differ => tagged; classes holding segment names must differ whenever the model's images do). "
         "non-trivial = all four executions completed and the file holds data; distinct by digest of the call list",
    level_text="Information-flow theorems over a machine in which every source of nondeterminism of the implementation is an explicit oracle stream (Tantivy segment file names, indexing-thread scheduling, SystemTime::now, hash-set order of the frame filter, temp names), built as the product of the logical machine of Model/Reads.v over Model/Store.v "
               "(frame table with content tags and timestamps, lex_docs, vec_docs, time index, plus memory-card lists) and a physical machine (log records, embedded segment files, stale index images, card stamps) from which a symbolic image of 17 region classes of the file is assembled: "
               "for ALL histories with explicit timestamps and ALL pairs of oracle streams the logical state and every call result are identical (noninterference); each region class is identical whenever the streams agree on the sources it is tagged with, hence payload / time-index / vector-index / sketch-track / header-geometry / footer-generation bytes are identical for all streams, "
               "temp names and hash order flow nowhere; find_sketch_candidates (frame-order scan, stable sort by score, cut) is an observation of the logical state, identical as an ordered list for all streams, and a hash-map-order scan is shown to let HashOrd flow into it as soon as scores tie; the segment files hold the engine's documents as a set; byte identity is refuted (two streams give different TOC images for every hash function) with the exact list of differing classes, a tombstone's timestamp carries now, extracted cards carry now; the explicit-timestamp hypothesis is shown necessary. "
               "Tied to the code by executing every generated history four times (two processes apart) and comparing logical digests and region classes byte for byte, and by comparing table / time index / vector index / results with the model.",
    level_note="The property's FIRST sentence (byte-identical files) is REFUTED on the unchanged implementation and recorded as ONE known finding (class bytes-differ-in-oracle-tagged-classes: header footer-offset / log-position / TOC checksum, log, embedded Tantivy files, memories track, unreferenced bytes, TOC, footer length+hash); the SECOND sentence (identical logical state) is proved for the model and enforced on the implementation. "
               "Partial: the physical machine is symbolic (one word per value, lengths = word counts, BLAKE3 a parameter H), it does not model byte encodings; vacuum is treated as a commit; Tantivy's ranking is an oracle assumed to depend on documents and filter as sets (theorem C23_filtered_search_noninterference states it as hypothesis; the ~30 searches per history test it); "
               "position classes (footer offset, log position) are tagged with an upper bound of their sources; log growth decisions are oracle inputs of Model/Store.v (observed, identical in all executions). The enrichment queue stamp (now) is not modelled: no generated put needs enrichment.",
    trusted_base=["hand-written model Model/Determinism.v over Model/Reads.v / Model/Store.v (tied by the four-fold execution and the model comparison)",
                  "oracle inputs read from the implementation: automatic-checkpoint timing and extra log records (cfg(memvid_verif) wal_stats hook), number of chunk frames, number of extracted cards",
                  "region delimitation by the implementation's own public decoders (HeaderCodec::decode, find_last_valid_footer, Toc::decode)",
                  "Tantivy ranking assumed independent of segment layout and filter order (tested, not proved)"],
    assumptions=["every put / card carries an explicit timestamp (shown necessary: C23_implicit_timestamp_flows)", "engine ranking depends on documents and filter as sets", "a commit does not fail (a committing call that fails in some executions only is recognised, the history re-executed and the event reported as spurious-commit-failure)", "no I/O errors"],
    allowed_axioms=[],
)

PROPS["C09"] = dict(
    corr_module="Corr.C09",
    streams={
        "cands": dict(runner="C09_cands_run", in_t="C09_cands_in", out_t="C09_cands_out", shard=45),
        "recall": dict(runner="C09_run", in_t="C09_in", out_t="C09_out", shard=8),
        "page": dict(runner="C09_page_run", in_t="C09_page_in", out_t="C09_page_out", shard=60),
        # stream "failed" (a search that errors or panics) carries only the property oracle's verdict
    },
    n_quick=16, n_thorough=220,
    harness_timeout=3000,
    rule="n = number of generated memories (+ the two fixed witness memories of F-C09-1 / F-C09-2, run first) and 8*n unit cases. "
         "cands: Memvid::find_sketch_candidates on a SketchTrack assigned through sketches_mut(): 0-10 generate_sketch entries (Small / Medium / Large) over a 30-word vocabulary "
         "(repeated words, duplicate texts = tied scores, 40-130-token texts = non-zero length bucket), frame ids dense or sparse, 1/4 written and read back (renumbered, Large cut to 32 bytes); "
         "query = a word / two words of an entry, other words, 10-25 words, empty, punctuation only; hamming_threshold = the exact Hamming distance of some entry, one below, one above, 0, 10, 32, 64; "
         "max_candidates 0-3, the entry count, 500; min_score 0, 0.3, the exact score of an entry and one ulp above; compared exactly (frame id, f32 score bits, Hamming distance, matching top terms, order). "
         "recall: real memories of 1 / 2-5 / 6-30 / 31-80 / 100-200 short documents, each drawing 1..3/6/12/25 words of its OWN from a 2000-word vocabulary of 7-letter pseudo-words, 1-8 planted words each in k = 1..30 documents, "
         "binary frames (1/10 and often frame 0), deleted frames (often frame 0, sometimes a planted one), optional mid-way commit, 1/3 of the memories with 1-2 two-snippet documents carrying the newest timestamp; "
         "three states per memory: open handle, after close + reopen (sketch track read back from the file), and in 1/3 after further puts + commit; per state every planted word, 3-8 ordinary words and an absent word, "
         "top_k = k and one of k+1 / 10 / 50 / 1000 / k-1 / k+0..3 (2 and 3 for multi-snippet words), each with and without no_sketch. Per request the model gets the memory's sketch entries (mem.sketches()), the query's token hashes, "
         "top_k, no_sketch, the matching frames, the engine oracle U (frames returned with no_sketch and top_k 10000), the returned frames and whether the response was complete; compared: the sorted sketch candidate ids of "
         "find_sketch_candidates with the options search builds, the class predicate sketch_drops, and returned frames = U restricted to the model's candidate filter (equality when nothing truncates, else inclusion). "
         "page: multi-snippet requests, hit frames predicted by the page loop from the evaluated order. Property oracle on the implementation alone: k >= 1 matching active frames, k <= top_k, and a matching frame is not among "
         "the hits' frames (class by cause: not a sketch candidate / response truncated by snippets / other); the engine hypothesis is tested on every request (no_sketch, top_k 10000 must return all k: engine-recall-miss otherwise). "
         "non-trivial = some request of the batch has 1 <= k <= top_k with the sketch filter applied (recall), at least one entry and one query token (cands), multi-snippet (page); distinct by memory / state / batch and by digest of the unit case",
    level_text="Unbounded theorems over the line-by-line model of the sketch pre-filter (hamming_distance, term_filter_maybe_overlaps, count_matching_top_terms, QuerySketch::from_query, score_entry, find_candidates with stable sort and truncation, "
               "find_sketch_candidates) and of Memvid::search from the sketch block to the response (options 32 / max(500, top_k.saturating_mul(10)) / 0.0, composition with the filter built so far, the saturating engine limit, engine call, evaluation loop, re-sort, page loop: the last three imported from C16's model), "
               "for every sketch track, query sketch, score function, engine and frame table: (1) recall -- k matching frames, k <= top_k, engine hypothesis, frames evaluable => every one of the k frames has a hit -- proved OUTSIDE two classes; "
               "(2) with no_sketch the sketch class is empty, so recall holds for all corpora outside the snippet class; (3) the sketch class characterised: the bloom side never rejects a frame sharing a token with the query (any tokenizer / hash / weights; built on C39's theorem), "
               "the candidates are exactly the entries passing overlap && hamming <= 32 cut to max_candidates, so the class needs a Hamming distance above 32, the max_candidates cut, or a misnumbered entry; (4) reopen keeps the passing frame ids when ids are 0,1,2,.. (always so on real memories: every frame gets an entry), renumbers them otherwise. "
               "THE PROPERTY AS STATED IS REFUTED twice (vm_compute witnesses, both reproduced on the unchanged implementation): F-C09-1 with real SimHash values of generate_sketch / QuerySketch::from_query (Hamming distance 34), F-C09-2 two snippets of one document fill top_k = 2.",
    level_note="Property as stated REFUTED in two classes recorded as known findings F-C09-1 (sketch-false-negative: about 10% of single-word queries on 100-document memories lose a frame with the default options) and F-C09-2 (snippets-exceed-top-k); proved outside them. "
               "The search engine (Tantivy + stemming + BM25) is an oracle with the single hypothesis engine_recall, tested on every generated request by searching with no_sketch and top_k 10000; what the evaluation loop reads per frame (query evaluation, snippet slices) is an input `toc` with the hypothesis `evaluable` "
               "(C32 / C35 cover those functions). The f32 score of score_entry is a parameter of the theorems (they hold for every score function; the candidate SET does not depend on it while max_candidates does not cut) and is instantiated with a bit-exact binary32 model (Model/RecallF32.v, standard library only) in the correspondence run. "
               "The reopen renumbering (F-C39-1) could not be made to bite on real memories: put/commit give every frame (binary, blank, deleted, replayed) a sketch entry, so ids are dense; the harness checks this on every memory and would report `sketch-renumbered-after-reopen` as a new violation.",
    trusted_base=["engine oracle: U = frames returned by the real Memvid::search for the same query with no_sketch = true and top_k = 10000; in the correspondence run engine(F) = U restricted to F",
                  "sketch entries are read from the implementation (mem.sketches().iter()); BLAKE3 token hashes come from the implementation's hash_token (a token is identified with its hash); the tokenizer is the implementation's tokenize_for_sketch",
                  "Model/RecallF32.v: a 60-line model of binary32 arithmetic on non-negative normal values (round to nearest even) for the score bits of stream cands only, checked bit for bit against the implementation on every candidate; no theorem of Properties/C09.v depends on it"],
    assumptions=["engine_recall (Section hypothesis, satisfiable: Example C09_hypotheses_satisfiable / lemma table_engine2_recall): every matching frame inside the candidate filter is among the engine's results whenever at most `limit` matching frames are inside the filter",
                 "evaluable: each matching frame is in the frame table, passes parsed.evaluate (the word occurs in its lower-cased search text) and yields at least one non-empty in-range snippet slice",
                 "top_k <= usize::MAX (the Rust type; max_candidates and the engine limit saturate since repo commit 9b4da04, modelled as such: sketch_max_candidates / engine_limit in Model/Recall.v, stated locally and independent of SearchPage.doc_limit); default request: no cursor, no uri / scope, no date range / as_of (cf0 = None; the theorem is stated for any cf0 containing the matching frames)",
                 "every score is >= min_score 0.0 (zero_least), true of the f32 formula on finite non-negative operands",
                 "known findings outside which recall is proved: known_sketch (the sketch stage removes a matching frame from the candidate filter), known_snippets (the evaluated documents yield more snippets than top_k)"],
    allowed_axioms=[],
)

# Temporarily held while the models are being updated to repaired /repo code (2026-09-22):
for _pid in ():
    PROPS[_pid]["hold"] = True

PROPS["C07"] = dict(
    corr_module="Corr.C07",
    streams={"hist": dict(runner="C07_run", in_t="C07_in", out_t="C07_out", shard=3, imports=["Model.Content"])},
    n_quick=26, n_thorough=500,
    harness_timeout=3000,
    rule="histories of 1-4 commit batches on a real memory (shared Driver), each batch 1-4 ops: puts (payload classes: empty, 1-8 random/zero/ASCII bytes, zero-filled, random binary, "
         "non-UTF-8 with one bad byte short/long, highly compressible, UTF-8 of exactly 2399/2400/2401 characters ASCII and multibyte, larger prose with/without newlines and multibyte, "
         "structured text with tables/code, whitespace only, control-heavy, text the normalizer changes, sentence end + unbroken 1440..2600-char token (single-space chunk), 20-60 KB binary forcing log growth, UTF-8 with NUL; multi-byte text (2-, 3-, 4-byte code points, pure and mixed with ASCII, already normalized or with CRLF / tabs / ideographic and double spaces / blank lines / leading+trailing whitespace / full-width punctuation and letters) "
         "whose normalized CHARACTER count is 1200, 1201, 2399, 2400, 2401 or anywhere in 600..2399 with >= 2400 BYTES, or whose BYTE count is 2399/2400/2401 with fewer characters) "
         "x option classes (default, all extras off, auto_tag off + instant index, with uri, budget 0, caller search text), updates with payload, payload-reusing updates, deletes; "
         "with/without begin_batch compression level 0/1/3/9; ended by commit or by exit-without-commit + reopen (replay), optionally followed by a reopen; 9 fixed histories first (tiny payload sweep, "
         "ASCII threshold texts, the two reproduction inputs of the fixed defect 270cbaf, the witness of F-C07-2, four multi-byte threshold histories). "
         "The harness decides by itself (normalize_text + its own constant 2400) whether a UTF-8 text is below the chunking threshold and then demands the whole-payload reads (== P) whatever the implementation planned. After every commit every frame is read through frame_canonical_payload, blob_reader (to the end) "
         "and frame_text_by_id and the stored window is read from the file with std::fs; compared with the model: all payload fields of all frames (offset, length, checksum, encoding, canonical length, role, manifest, parent, chunk index, status) "
         "and the three reads (lengths + BLAKE3), or the commit error kind; property oracle: byte equality with what was put, BLAKE3 of the stored window = checksum, canonical_length, shared fields of reusing updates, "
         "chunk frames = planned chunks, parent = concatenation in chunk_index order = normalize_text (unstructured), unchanged after reopen; non-trivial = the history committed at least one whole or chunked payload; distinct by digest of the model input",
    level_text="Unbounded theorems over a byte-level model of the payload region (file as a byte list, absolute offsets; prepare_canonical_payload_with_level, decode_canonical_bytes, apply_records' placement/checksum/parent/index-read parts with "
               "data_end advanced inside the loop, validate_frame_bounds, read_frame_payload_bytes, frame_canonical_bytes, document_chunk_payloads, blob_reader, frame_content; zstd, BLAKE3, UTF-8 validity as arbitrary functions with the single "
               "hypothesis dec(enc x)=x): for every store, every accepted batch of records and every payload stored whole, canonical payload = P, blob reader (file window or memory) reads P, checksum = H(stored window), validate_frame_bounds accepts, "
               "canonical length check passes; the frame read back during apply is accepted at the time it is read; payload-reusing updates share offset/length/checksum and read the same; chunked documents read the in-order concatenation of their chunks "
               "(read side) and for unstructured text the chunk encodings concatenate to the normalized text (from C34). Model tied to the code by histories on real memories compared frame by frame and read by read.",
    level_note="Property as stated is REFUTED for one class, recorded as known finding F-C07-2 (non-UTF-8 payload with a chunk plan from its extracted text: canonical payload returns the chunk text); proved outside it. "
               "PARTIAL for chunked text: the theorem covers the read side (given the active children in chunk_index order); that apply_records leaves exactly the put's chunk frames as the parent's children is checked by correspondence only. "
               "The blob reader of a chunked parent (payload_length 0, Plain) is the empty file window: recorded as an observation (Example C07_nonvacuous_chunked), the property's blob-reader clause is worded for whole payloads. "
               "Trusted: Coq kernel + vm_compute; hand-written model (tied by correspondence); zstd/BLAKE3/UTF-8 validity oracles (finite tables of observed values in the runs); search text and mime class of each entry, data_end and the log-region size are read from the implementation through hooks; no I/O errors.",
    trusted_base=["zstd is a pair of Section variables with hypothesis zdec (zenc level x) = Some x; in the runs it is the table (level, payload, stored window) observed on the implementation",
                  "BLAKE3 is a Section variable; in the runs the table of real digests of every byte string hashed",
                  "std::str::from_utf8 validity is a Section variable; in the runs the list of valid byte strings of the case",
                  "each log entry's search text and mime class (outputs of the extractor / augment_search_text) are inputs of the model, read from the committed frame"],
    assumptions=["no I/O errors or short writes", "every fresh payload of a batch is at most MAX_FRAME_BYTES (256 MiB) and the final data_end fits in u64", "frames updated by a payload-reusing update carry a canonical_length (every frame apply_records creates does)"],
    allowed_axioms=[],
)
