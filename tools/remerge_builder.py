#!/usr/bin/env python3
"""tools/remerge_builder.py <PID> file... : copy the listed files (relative to the verif root) from
/tmp/b_<PID>/verif over /verif's, replace the PROPS[<PID>] block and the <PID> entries of
KNOWN_FINDINGS.json (findings with property == PID, fixed lines 'property=PID')."""
import sys, os, re, json, shutil
pid = sys.argv[1]; src = "/tmp/b_%s/verif" % pid; dst = "/verif"
for f in sys.argv[2:]:
    shutil.copy(os.path.join(src, f), os.path.join(dst, f)); print("copied", f)
ps = open(os.path.join(src, "tools/props.py")).read(); pd = open(os.path.join(dst, "tools/props.py")).read()
pat = r'^PROPS\["%s"\] = dict\(.*?^\)\n' % pid
m = re.search(pat, ps, re.S | re.M); m2 = re.search(pat, pd, re.S | re.M)
if m and m2: pd = pd.replace(m2.group(0), m.group(0)); print("props replaced")
elif m: pd += "\n" + m.group(0); print("props added")
open(os.path.join(dst, "tools/props.py"), "w").write(pd)
a = json.load(open(os.path.join(src, "KNOWN_FINDINGS.json"))); b = json.load(open(os.path.join(dst, "KNOWN_FINDINGS.json")))
b["findings"] = [f for f in b["findings"] if f["property"] != pid] + [f for f in a.get("findings", []) if f["property"] == pid]
mine = [x for x in a.get("fixed", []) if ("property=%s " % pid) in x]
b["fixed"] = [x for x in b["fixed"] if ("property=%s " % pid) not in x or x in mine] + [x for x in mine if x not in b["fixed"]]
json.dump(b, open(os.path.join(dst, "KNOWN_FINDINGS.json"), "w"), indent=1)
print("findings now:", [f["id"] for f in b["findings"] if f["property"] == pid], "fixed lines:", len([x for x in b["fixed"] if ("property=%s " % pid) in x]))
