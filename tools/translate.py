#!/usr/bin/env python3
"""Regenerate coq/Gen/Consts.v from /repo's current source (declarative fragments only:
numeric constants, byte-string magics, name lists).  Function bodies are tied to their
models by the correspondence check, never by this translator."""
import re, sys, os, json
from fractions import Fraction

REPO = os.environ.get("VERIF_REPO", "/repo")

# (coq name, source file, rust const name)
CONSTS = [
    ("FOOTER_MAGIC", "src/footer.rs", "FOOTER_MAGIC"),
    ("FOOTER_SIZE", "src/footer.rs", "FOOTER_SIZE"),
    ("HEADER_MAGIC", "src/constants.rs", "MAGIC"),
    ("HEADER_SIZE", "src/constants.rs", "HEADER_SIZE"),
    ("TIME_INDEX_MAGIC", "src/constants.rs", "TIME_INDEX_MAGIC"),
    ("SPEC_MAJOR", "src/constants.rs", "SPEC_MAJOR"),
    ("SPEC_MINOR", "src/constants.rs", "SPEC_MINOR"),
    ("WAL_OFFSET", "src/constants.rs", "WAL_OFFSET"),
    ("WAL_SIZE_TINY", "src/constants.rs", "WAL_SIZE_TINY"),
    ("WAL_SIZE_SMALL", "src/constants.rs", "WAL_SIZE_SMALL"),
    ("WAL_SIZE_MEDIUM", "src/constants.rs", "WAL_SIZE_MEDIUM"),
    ("WAL_SIZE_LARGE", "src/constants.rs", "WAL_SIZE_LARGE"),
    ("WAL_CHECKPOINT_THRESHOLD", "src/constants.rs", "WAL_CHECKPOINT_THRESHOLD"),
    ("WAL_CHECKPOINT_PERIOD", "src/constants.rs", "WAL_CHECKPOINT_PERIOD"),
    ("ENTRY_HEADER_SIZE", "src/io/wal.rs", "ENTRY_HEADER_SIZE"),
    ("HDR_VERSION_OFFSET", "src/io/header.rs", "VERSION_OFFSET"),
    ("HDR_SPEC_BYTES_OFFSET", "src/io/header.rs", "SPEC_BYTES_OFFSET"),
    ("HDR_FOOTER_OFFSET_POS", "src/io/header.rs", "FOOTER_OFFSET_POS"),
    ("HDR_WAL_OFFSET_POS", "src/io/header.rs", "WAL_OFFSET_POS"),
    ("HDR_WAL_SIZE_POS", "src/io/header.rs", "WAL_SIZE_POS"),
    ("HDR_WAL_CHECKPOINT_POS", "src/io/header.rs", "WAL_CHECKPOINT_POS"),
    ("HDR_WAL_SEQUENCE_POS", "src/io/header.rs", "WAL_SEQUENCE_POS"),
    ("HDR_TOC_CHECKSUM_POS", "src/io/header.rs", "TOC_CHECKSUM_POS"),
    ("HDR_TOC_CHECKSUM_END", "src/io/header.rs", "TOC_CHECKSUM_END"),
    ("HDR_EXPECTED_VERSION", "src/io/header.rs", "EXPECTED_VERSION"),
]
EXTRA_PATH = os.path.join(os.path.dirname(os.path.abspath(__file__)), "translate_extra.json")
if os.path.exists(EXTRA_PATH):
    CONSTS += [tuple(x) for x in json.load(open(EXTRA_PATH))]

_src_cache = {}
def src(path):
    if path not in _src_cache:
        with open(os.path.join(REPO, path), encoding="utf-8") as f:
            _src_cache[path] = f.read()
    return _src_cache[path]

def find_const(path, name):
    """returns the text of the initialiser expression of `const NAME: T = <expr>;`"""
    m = re.search(r"(?:pub(?:\([a-z]+\))?\s+)?(?:const|static)\s+" + re.escape(name) + r"\s*:\s*([^=]+?)=\s*(.*?);", src(path), re.S)
    if not m:
        return None
    return m.group(2).strip()

def unescape_bytes(s):
    out = []; i = 0
    while i < len(s):
        c = s[i]
        if c == "\\":
            n = s[i + 1]
            if n == "0": out.append(0); i += 2
            elif n == "n": out.append(10); i += 2
            elif n == "r": out.append(13); i += 2
            elif n == "t": out.append(9); i += 2
            elif n == "\\": out.append(92); i += 2
            elif n == '"': out.append(34); i += 2
            elif n == "x": out.append(int(s[i + 2:i + 4], 16)); i += 4
            else: raise ValueError("escape " + n)
        else:
            out.extend(c.encode("utf-8")); i += 1
    return out

class Ev:
    """evaluator for the small constant-expression fragment used by these constants"""
    def __init__(self, path): self.path = path
    def const(self, name):
        e = find_const(self.path, name)
        if e is None:
            # imported from crate::constants
            e = find_const("src/constants.rs", name)
            if e is None: raise KeyError(name)
            return Ev("src/constants.rs").ev(e)
        return Ev(self.path).ev(e)
    def ev(self, e):
        e = e.strip()
        m = re.fullmatch(r"\*?b\"((?:[^\"\\]|\\.)*)\"", e)
        if m: return unescape_bytes(m.group(1))
        toks = re.findall(r"\d[\d_]*\.\d+|0x[0-9a-fA-F_]+|\d[\d_]*(?:u8|u16|u32|u64|usize|i64)?|[A-Za-z_][A-Za-z_0-9]*(?:\.len\(\))?|<<|>>|[()+\-*/|&]|as", e)
        if "".join(toks).replace(" ", "") != re.sub(r"\s+", "", e):
            raise ValueError("cannot tokenise %r" % e)
        self.t = toks; self.i = 0
        v = self.p_or()
        if self.i != len(self.t): raise ValueError("trailing tokens in %r" % e)
        return v
    def peek(self): return self.t[self.i] if self.i < len(self.t) else None
    def eat(self): x = self.t[self.i]; self.i += 1; return x
    def p_or(self):
        v = self.p_and()
        while self.peek() == "|": self.eat(); v = v | self.p_and()
        return v
    def p_and(self):
        v = self.p_shift()
        while self.peek() == "&": self.eat(); v = v & self.p_shift()
        return v
    def p_shift(self):
        v = self.p_add()
        while self.peek() in ("<<", ">>"):
            op = self.eat(); w = self.p_add(); v = v << w if op == "<<" else v >> w
        return v
    def p_add(self):
        v = self.p_mul()
        while self.peek() in ("+", "-"):
            op = self.eat(); w = self.p_mul(); v = v + w if op == "+" else v - w
        return v
    def p_mul(self):
        v = self.p_cast()
        while self.peek() in ("*", "/"):
            op = self.eat(); w = self.p_cast(); v = v * w if op == "*" else v // w
        return v
    def p_cast(self):
        v = self.p_atom()
        while self.peek() == "as":
            self.eat(); ty = self.eat()
            bits = {"u8": 8, "u16": 16, "u32": 32, "u64": 64, "usize": 64}.get(ty)
            if bits and isinstance(v, int): v = v & ((1 << bits) - 1)
        return v
    def p_atom(self):
        t = self.eat()
        if t == "(":
            v = self.p_or(); assert self.eat() == ")"; return v
        if re.fullmatch(r"\d[\d_]*\.\d+", t): return Fraction(t.replace("_", ""))
        if t.startswith("0x"): return int(t.replace("_", ""), 16)
        m = re.fullmatch(r"(\d[\d_]*)(?:u8|u16|u32|u64|usize|i64)?", t)
        if m: return int(m.group(1).replace("_", ""))
        if t.endswith(".len()"):
            return len(self.const(t[:-6]))
        return self.const(t)

def coq_value(v):
    if isinstance(v, list): return "bytes", "[" + "; ".join(str(x) for x in v) + "]%N"
    if isinstance(v, Fraction): return "(N * N)%type", "(%d, %d)%%N" % (v.numerator, v.denominator)
    return "N", "%d%%N" % v

def name_lists():
    """string lists the models are parameterised by; returns (lists, missing)"""
    out = []; missing = []
    # forbidden sidecar suffixes (C19): the two local arrays of ensure_single_file
    #   let forbidden = ["-wal", ...];   let hidden_forbidden = [".wal", ...];
    # (also accepted: a `const FORBIDDEN_SIDECAR...: [&str; N] = [...]` if the code is refactored)
    try:
        s = src("src/memvid/lifecycle.rs")
        m = re.search(r"fn\s+ensure_single_file\b.*?\n}\n", s, re.S)
        body = m.group(0) if m else ""
        for coqname, var in (("FORBIDDEN_SIDECAR_SUFFIXES", "forbidden"), ("HIDDEN_FORBIDDEN_SIDECAR_SUFFIXES", "hidden_forbidden")):
            mm = re.search(r"let\s+" + var + r"\s*(?::[^=]*)?=\s*&?\[(.*?)\]\s*;", body, re.S) or \
                 re.search(r"(?:const|static)\s+" + var.upper() + r"\w*\s*:[^=]*=\s*&?\[(.*?)\]\s*;", s, re.S)
            if mm:
                out.append((coqname, re.findall(r"\"([^\"]*)\"", mm.group(1))))
            else:
                missing.append((coqname, "src/memvid/lifecycle.rs", var, "array not found in ensure_single_file"))
    except Exception as ex:
        missing.append(("FORBIDDEN_SIDECAR_SUFFIXES", "src/memvid/lifecycle.rs", "forbidden", repr(ex)))
    return out, missing

def generate():
    lines = ["(* GENERATED by tools/translate.py from /repo's source on every check run. DO NOT EDIT. *)",
             "From Coq Require Import List NArith String.", "Import ListNotations.", "Local Open Scope N_scope.", "Definition bytes := list N.", ""]
    missing = []
    values = {}
    for coqname, path, rname in CONSTS:
        try:
            v = Ev(path).const(rname)
            ty, txt = coq_value(v)
            lines.append("Definition %s : %s := %s.  (* %s : %s *)" % (coqname, ty, txt, path, rname))
            values[coqname] = v if not isinstance(v, Fraction) else [v.numerator, v.denominator]
        except Exception as ex:
            missing.append((coqname, path, rname, repr(ex)))
    lists, lmissing = name_lists()
    missing += lmissing
    for nm, items in lists:
        lines.append("Definition %s : list string := [%s]%%string." % (nm, "; ".join('"%s"' % x for x in items)))
    return "\n".join(lines) + "\n", missing, values

def main():
    out_path = sys.argv[1] if len(sys.argv) > 1 else os.path.join(os.path.dirname(os.path.abspath(__file__)), "..", "coq", "Gen", "Consts.v")
    text, missing, values = generate()
    status = {"missing": missing, "fallback": False, "changed": False}
    # C36: the PII regexes as AST terms (own module; falls back to its snapshot on its own)
    try:
        import translate_pii
        pii_changed, pii_missing = translate_pii.run()
    except Exception as ex:  # noqa: BLE001
        pii_changed, pii_missing = False, [("PiiPatterns", "src/pii.rs", "regexes", repr(ex))]
    if pii_missing:
        status["missing"] = list(missing) + pii_missing; status["fallback"] = True
    status["changed"] = pii_changed
    if missing:
        # a constant could not be found (renamed / moved): keep the committed snapshot, say so
        status["fallback"] = True
    else:
        old = open(out_path).read() if os.path.exists(out_path) else None
        if old != text:
            os.makedirs(os.path.dirname(out_path), exist_ok=True)
            with open(out_path, "w") as f: f.write(text)
            status["changed"] = True
    print(json.dumps(status))

if __name__ == "__main__":
    main()
