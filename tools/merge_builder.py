#!/usr/bin/env python3
"""tools/merge_builder.py <PID> : merge a builder copy /tmp/b_<PID>/verif into /verif."""
import sys, os, re, json, shutil, subprocess
pid = sys.argv[1]; src = "/tmp/b_%s/verif" % pid; dst = "/verif"
def rel_files(root, sub):
    out = []
    for dp, dn, fn in os.walk(os.path.join(root, sub)):
        for f in fn:
            out.append(os.path.relpath(os.path.join(dp, f), root))
    return out
# 1. new coq / harness source files
for sub, exts in (("coq", (".v",)), ("harness/src", (".rs",))):
    for f in rel_files(src, sub):
        if not f.endswith(exts): continue
        if "/.cache" in f or f.startswith("coq/Gen/"): continue
        d = os.path.join(dst, f)
        if not os.path.exists(d):
            os.makedirs(os.path.dirname(d), exist_ok=True); shutil.copy(os.path.join(src, f), d); print("new", f)
        else:
            a = open(os.path.join(src, f)).read(); b = open(d).read()
            if a != b and os.path.basename(f) not in ("main.rs", "term.rs", "Prelude.v", "Facts.v", "store.rs", "c01.rs", "c05.rs", "c31.rs") and not f.startswith("coq/Model/Wal") and not f.startswith("coq/Model/Store") and not f.startswith("coq/Proofs/Wal") and not f.startswith("coq/Properties/C0") and not f.startswith("coq/Corr/C0"):
                print("DIFFERS (not copied):", f)
            elif a != b and os.path.basename(f) in ("term.rs", "Prelude.v", "Facts.v"):
                print("SHARED FILE DIFFERS, inspect:", f)
# 2. _CoqProject lines
have = open(os.path.join(dst, "coq/_CoqProject")).read().split("\n")
add = [l for l in open(os.path.join(src, "coq/_CoqProject")).read().split("\n") if l.strip() and l not in have]
if add:
    with open(os.path.join(dst, "coq/_CoqProject"), "a") as f: f.write("\n".join(add) + "\n")
    print("_CoqProject +", add)
# 3. main.rs
m_src = open(os.path.join(src, "harness/src/main.rs")).read(); m_dst = open(os.path.join(dst, "harness/src/main.rs")).read()
for l in m_src.split("\n"):
    if re.match(r"mod \w+;", l) and l not in m_dst:
        m_dst = m_dst.replace("mod term;", "mod term;\n" + l, 1); print("main.rs +", l)
    if re.match(r'\s+"C\d+" => ', l) and l.strip() not in m_dst:
        m_dst = m_dst.replace('        _ => { eprintln!("unknown property', l + '\n        _ => { eprintln!("unknown property', 1); print("main.rs +", l.strip())
open(os.path.join(dst, "harness/src/main.rs"), "w").write(m_dst)
# 4. props block
p_src = open(os.path.join(src, "tools/props.py")).read()
m = re.search(r'^PROPS\["%s"\] = dict\(.*?^\)\n' % pid, p_src, re.S | re.M)
p_dst = open(os.path.join(dst, "tools/props.py")).read()
if m and ('PROPS["%s"]' % pid) not in p_dst:
    open(os.path.join(dst, "tools/props.py"), "a").write("\n" + m.group(0)); print("props +", pid)
elif not m: print("NO PROPS BLOCK FOUND for", pid)
# 5. known findings
kf = os.path.join(src, "KNOWN_FINDINGS.json")
if os.path.exists(kf):
    a = json.load(open(kf)); b = json.load(open(os.path.join(dst, "KNOWN_FINDINGS.json")))
    ids = {x["id"] for x in b["findings"]}
    for x in a.get("findings", []):
        if x["id"] not in ids and x.get("property") == pid: b["findings"].append(x); print("finding +", x["id"])
    json.dump(b, open(os.path.join(dst, "KNOWN_FINDINGS.json"), "w"), indent=1)
# 6. Cargo.toml deps
c_src = open(os.path.join(src, "harness/Cargo.toml")).read(); c_dst = open(os.path.join(dst, "harness/Cargo.toml")).read()
if c_src != c_dst: print("Cargo.toml differs:\n", "\n".join(l for l in c_src.split("\n") if l not in c_dst))
